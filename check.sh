#!/bin/sh
# usage: check.sh <property> quick|thorough
# Rebuilds nothing of /repo ahead of time: the engine re-loads /repo's current working tree
# (go/packages + go/ssa) on every run, and the native replay binary is rebuilt from it too.
set -u
cd /verif
export GOFLAGS=-mod=mod GOPROXY=off GOSUMDB=off GOTOOLCHAIN=local CGO_ENABLED=0
if [ ! -x /verif/bin/gosymex ] || [ -n "$(find /verif/engine -newer /verif/bin/gosymex -name '*.go' 2>/dev/null | head -1)" ]; then
  (cd /verif/engine && go build -o /verif/bin/gosymex ./cmd/gosymex) || { echo "INCONCLUSIVE property=$1 reason=engine build failed"; exit 2; }
fi
exec /verif/bin/gosymex check -property "$1" -tier "${2:-quick}"
