// Go-source MODEL of github.com/apache/arrow-go/v18/arrow/ipc, overlaid over the real package by the
// verification harnesses (DESIGN.md §2.5). CONTRACT (trusted, listed in the evidence):
//   * NewWriter(w, WithSchema(s)) remembers s. Write(rec) fails unless rec.Schema() equals s (and the
//     writer is open), retains nothing, and emits one opaque 12-byte token (magic + handle) into w that
//     stands for (stream serial, sequence number, a detached copy of the record); the first token of a
//     stream carries the schema. Records handed to Write must come from the arrow/array model.
//   * NewReader(r) reads the first token: empty input, a garbled token or a token that is not the first of
//     its stream give (nil, error). Next() reads one token from r: end of input => false without error;
//     (and, as in the real reader, the reader is finished for good: every later Next() is false too);
//     garbled input or a token of another stream => false and Err() != nil; otherwise the record is
//     materialised after consulting the supplied allocator with the record's declared cost; an allocator
//     panic is recovered and becomes Err() wrapping the panic value with %w (ipc.(*Reader).next +
//     utils.FormatRecoveredError in arrow-go v18.2.0). Replaying an older token of the same stream simply
//     yields that record again. (*Reader)(nil).Release() dereferences nil, as the real one does.
//   * dictionary deltas/replacements, zstd and the byte-level framing are not modelled.
package ipc

import (
	"errors"
	"fmt"
	"io"
	"sync"

	"github.com/apache/arrow-go/v18/arrow"
	"github.com/apache/arrow-go/v18/arrow/array"
	"github.com/apache/arrow-go/v18/arrow/memory"
)

type config struct {
	alloc  memory.Allocator
	schema *arrow.Schema
	zstd   bool
}

type Option func(*config)

func WithAllocator(mem memory.Allocator) Option { return func(c *config) { c.alloc = mem } }
func WithSchema(s *arrow.Schema) Option         { return func(c *config) { c.schema = s } }
func WithDictionaryDeltas(bool) Option          { return func(c *config) {} }
func WithZstd() Option                          { return func(c *config) { c.zstd = true } }

// VerifToken is what one IPC message stands for.
type VerifToken struct {
	Stream int
	Seq    int
	Rec    arrow.Record
	Schema *arrow.Schema
	Cost   int // bytes the reader asks its allocator for when materialising the record
}

// verifMu guards the token table and the counters when the compiled model is driven by several goroutines
// (native replay); under the engine a mutex operation made by model code is neither a scheduling point nor a
// happens-before edge.
var verifMu sync.Mutex

var (
	verifTokens  []VerifToken
	verifStreams int
	// VerifWriters counts writers that were created and not yet closed.
	VerifOpenWriters int
	// VerifCost is the allocation cost attached to tokens written from now on.
	VerifCost int
)

var magic = [4]byte{'V', 'R', 'F', 'Y'}

// VerifTokenOf decodes a payload produced by the model writer.
func VerifTokenOf(b []byte) (VerifToken, bool) {
	if len(b) != 12 || b[0] != magic[0] || b[1] != magic[1] || b[2] != magic[2] || b[3] != magic[3] {
		return VerifToken{}, false
	}
	h := 0
	for i := 4; i < 12; i++ {
		h = h<<8 | int(b[i])
	}
	verifMu.Lock()
	defer verifMu.Unlock()
	if h < 0 || h >= len(verifTokens) {
		return VerifToken{}, false
	}
	return verifTokens[h], true
}

type Writer struct {
	w      io.Writer
	schema *arrow.Schema
	stream int
	seq    int
	closed bool
}

func NewWriter(w io.Writer, opts ...Option) *Writer {
	cfg := &config{}
	for _, o := range opts {
		o(cfg)
	}
	return &Writer{w: w, schema: cfg.schema, stream: verifNewStream()}
}

// Bookkeeping helpers (names start with verif/Verif: the engine's race detector does not track model bookkeeping).
func verifNewStream() int {
	verifMu.Lock()
	defer verifMu.Unlock()
	verifStreams++
	VerifOpenWriters++
	return verifStreams
}

func verifPutToken(stream, seq int, rec arrow.Record, schema *arrow.Schema) int {
	verifMu.Lock()
	defer verifMu.Unlock()
	verifTokens = append(verifTokens, VerifToken{Stream: stream, Seq: seq, Rec: rec, Schema: schema, Cost: VerifCost})
	return len(verifTokens) - 1
}

func verifWriterClosed() {
	verifMu.Lock()
	VerifOpenWriters--
	verifMu.Unlock()
}

// VerifWriteFault (harness hook): when it returns true the next Write fails (an I/O or encoding fault inside the
// IPC writer), leaving the writer as it was.
var VerifWriteFault func() bool

func (w *Writer) Write(rec arrow.Record) error {
	if VerifWriteFault != nil && VerifWriteFault() {
		return errors.New("arrow/ipc: injected write failure")
	}
	if w.closed {
		return errors.New("arrow/ipc: writer is closed")
	}
	if w.schema == nil || !rec.Schema().Equal(w.schema) {
		return errors.New("arrow/ipc: tried to write record batch with different schema")
	}
	clone := array.VerifCloneRecord(rec, false)
	h := verifPutToken(w.stream, w.seq, clone, w.schema)
	w.seq++
	buf := make([]byte, 12)
	copy(buf, magic[:])
	for i := 11; i >= 4; i-- {
		buf[i] = byte(h)
		h >>= 8
	}
	_, err := w.w.Write(buf)
	return err
}

func (w *Writer) Close() error {
	if !w.closed {
		w.closed = true
		verifWriterClosed()
	}
	return nil
}

type Reader struct {
	r      io.Reader
	alloc  memory.Allocator
	schema *arrow.Schema
	stream int
	first  *VerifToken // token consumed by NewReader, delivered by the first Next
	rec    arrow.Record
	err    error
	refs   int
	done   bool // end of input was seen: like the real reader, no further message is ever read
	held   []byte // buffer obtained from the allocator for the current record
}

func readToken(r io.Reader) (tok VerifToken, eof bool, err error) {
	buf := make([]byte, 12)
	n, rerr := io.ReadFull(r, buf)
	if n == 0 && (rerr == io.EOF || rerr == nil) {
		return VerifToken{}, true, nil
	}
	if rerr != nil {
		return VerifToken{}, false, fmt.Errorf("arrow/ipc: could not read message: %w", rerr)
	}
	t, ok := VerifTokenOf(buf)
	if !ok {
		return VerifToken{}, false, errors.New("arrow/ipc: invalid message")
	}
	return t, false, nil
}

func NewReader(r io.Reader, opts ...Option) (*Reader, error) {
	cfg := &config{}
	for _, o := range opts {
		o(cfg)
	}
	tok, eof, err := readToken(r)
	if err != nil {
		return nil, err
	}
	if eof {
		return nil, errors.New("arrow/ipc: could not read schema from stream: EOF")
	}
	if tok.Seq != 0 {
		return nil, errors.New("arrow/ipc: stream does not start with a schema message")
	}
	return &Reader{r: r, alloc: cfg.alloc, schema: tok.Schema, stream: tok.Stream, first: &tok, refs: 1}, nil
}

func (r *Reader) Schema() *arrow.Schema { return r.schema }
func (r *Reader) Err() error            { return r.err }
func (r *Reader) Record() arrow.Record  { return r.rec }
func (r *Reader) Retain()               { r.refs++ }

func (r *Reader) Release() {
	r.refs--
	if r.refs == 0 {
		r.freeHeld()
	}
	if r.refs == 0 && r.rec != nil {
		r.rec.Release()
		r.rec = nil
	}
}

func (r *Reader) materialise(tok VerifToken) (err error) {
	defer func() {
		if pErr := recover(); pErr != nil {
			if e, ok := pErr.(error); ok {
				err = fmt.Errorf("arrow/ipc: unknown error while reading: %w", e)
			} else {
				err = fmt.Errorf("arrow/ipc: unknown error while reading: %v", pErr)
			}
		}
	}()
	if r.alloc != nil && tok.Cost > 0 {
		r.held = r.alloc.Allocate(tok.Cost)
	}
	return nil
}

func (r *Reader) freeHeld() {
	if r.held != nil {
		r.alloc.Free(r.held)
		r.held = nil
	}
}

func (r *Reader) Next() bool {
	r.freeHeld()
	if r.rec != nil {
		r.rec.Release()
		r.rec = nil
	}
	if r.err != nil || r.done {
		return false
	}
	var tok VerifToken
	if r.first != nil {
		tok = *r.first
		r.first = nil
	} else {
		t, eof, err := readToken(r.r)
		if eof {
			r.done = true
			return false
		}
		if err != nil {
			r.err = err
			return false
		}
		tok = t
	}
	if tok.Stream != r.stream {
		r.err = errors.New("arrow/ipc: message of another stream")
		return false
	}
	if err := r.materialise(tok); err != nil {
		r.err = err
		return false
	}
	r.rec = array.VerifCloneRecord(tok.Rec, true) // the reader owns the materialised record
	return true
}
