// Empty model: the real package is only needed by the real arrow/ipc, which is replaced by a model.
package dictutils
