// Go-source MODEL of github.com/fxamacker/cbor/v2 (the subset the repository uses), overlaid over the real
// package by the verification harnesses (DESIGN.md §2.5). CONTRACT (trusted, listed in the evidence):
// Decode(Encode(x)) yields the library's documented generic value for x — string, uint64 for non-negative
// and int64 for negative integers, float64, bool, []byte, nil (also for a nil []byte), []interface{} for
// arrays and map[interface{}]interface{} for maps (later duplicate keys win); indefinite-length containers
// are closed by EndIndefinite. The byte format is a private tag/length/value encoding, not RFC 8949:
// byte-level CBOR details (canonical sorting, shortest-form integers) are not modelled.
package cbor

import (
	"errors"
	"io"
	"math"
)

type SortMode int

const (
	SortNone SortMode = iota
	SortLengthFirst
	SortBytewiseLexical
	SortCanonical     = SortLengthFirst
	SortCTAP2         = SortBytewiseLexical
	SortCoreDeterministic = SortBytewiseLexical
)

type EncOptions struct {
	Sort SortMode
}

type EncMode interface {
	NewEncoder(w io.Writer) *Encoder
}

type encMode struct{}

func (o EncOptions) EncMode() (EncMode, error) { return encMode{}, nil }
func (encMode) NewEncoder(w io.Writer) *Encoder { return &Encoder{w: w} }

const (
	tStr   = 1
	tUint  = 2
	tNeg   = 3
	tFloat = 4
	tBool  = 5
	tBytes = 6
	tNil   = 7
	tArr   = 8
	tMap   = 9
	tEnd   = 10
)

type Encoder struct {
	w     io.Writer
	depth int
}

func put64(b []byte, v uint64) []byte {
	return append(b, byte(v>>56), byte(v>>48), byte(v>>40), byte(v>>32), byte(v>>24), byte(v>>16), byte(v>>8), byte(v))
}

func putLen(b []byte, n int) []byte {
	return append(b, byte(n>>24), byte(n>>16), byte(n>>8), byte(n))
}

func (e *Encoder) emit(b []byte) error {
	_, err := e.w.Write(b)
	return err
}

func (e *Encoder) Encode(v interface{}) error {
	switch x := v.(type) {
	case nil:
		return e.emit([]byte{tNil})
	case string:
		b := putLen([]byte{tStr}, len(x))
		return e.emit(append(b, x...))
	case int64:
		if x < 0 {
			return e.emit(put64([]byte{tNeg}, uint64(x)))
		}
		return e.emit(put64([]byte{tUint}, uint64(x)))
	case int:
		return e.Encode(int64(x))
	case uint64:
		return e.emit(put64([]byte{tUint}, x))
	case float64:
		return e.emit(put64([]byte{tFloat}, math.Float64bits(x)))
	case bool:
		if x {
			return e.emit([]byte{tBool, 1})
		}
		return e.emit([]byte{tBool, 0})
	case []byte:
		if x == nil {
			return e.emit([]byte{tNil})
		}
		b := putLen([]byte{tBytes}, len(x))
		return e.emit(append(b, x...))
	}
	return errors.New("cbor model: unsupported type")
}

func (e *Encoder) StartIndefiniteArray() error { e.depth++; return e.emit([]byte{tArr}) }
func (e *Encoder) StartIndefiniteMap() error   { e.depth++; return e.emit([]byte{tMap}) }
func (e *Encoder) EndIndefinite() error {
	if e.depth == 0 {
		return errors.New("cbor: cannot encode \"break\" code outside indefinite length values")
	}
	e.depth--
	return e.emit([]byte{tEnd})
}

type Decoder struct {
	r io.Reader
}

func NewDecoder(r io.Reader) *Decoder { return &Decoder{r: r} }

var errMalformed = errors.New("cbor: malformed data")

func (d *Decoder) readN(n int) ([]byte, error) {
	b := make([]byte, n)
	if n == 0 {
		return b, nil
	}
	if _, err := io.ReadFull(d.r, b); err != nil {
		return nil, io.ErrUnexpectedEOF
	}
	return b, nil
}

func get64(b []byte) uint64 {
	return uint64(b[0])<<56 | uint64(b[1])<<48 | uint64(b[2])<<40 | uint64(b[3])<<32 | uint64(b[4])<<24 | uint64(b[5])<<16 | uint64(b[6])<<8 | uint64(b[7])
}

type breakMarker struct{}

func (d *Decoder) value(depth int) (interface{}, error) {
	if depth > 32 {
		return nil, errors.New("cbor: exceeded max nested level")
	}
	tb, err := d.readN(1)
	if err != nil {
		return nil, io.EOF
	}
	switch tb[0] {
	case tNil:
		return nil, nil
	case tStr, tBytes:
		lb, err := d.readN(4)
		if err != nil {
			return nil, err
		}
		n := int(lb[0])<<24 | int(lb[1])<<16 | int(lb[2])<<8 | int(lb[3])
		if n < 0 || n > 1<<20 {
			return nil, errMalformed
		}
		b, err := d.readN(n)
		if err != nil {
			return nil, err
		}
		if tb[0] == tStr {
			return string(b), nil
		}
		return b, nil
	case tUint:
		b, err := d.readN(8)
		if err != nil {
			return nil, err
		}
		return get64(b), nil
	case tNeg:
		b, err := d.readN(8)
		if err != nil {
			return nil, err
		}
		return int64(get64(b)), nil
	case tFloat:
		b, err := d.readN(8)
		if err != nil {
			return nil, err
		}
		return math.Float64frombits(get64(b)), nil
	case tBool:
		b, err := d.readN(1)
		if err != nil {
			return nil, err
		}
		return b[0] != 0, nil
	case tArr:
		out := []interface{}{}
		for {
			v, err := d.value(depth + 1)
			if err != nil {
				return nil, errMalformed
			}
			if _, brk := v.(breakMarker); brk {
				return out, nil
			}
			out = append(out, v)
		}
	case tMap:
		out := map[interface{}]interface{}{}
		for {
			k, err := d.value(depth + 1)
			if err != nil {
				return nil, errMalformed
			}
			if _, brk := k.(breakMarker); brk {
				return out, nil
			}
			v, err := d.value(depth + 1)
			if err != nil {
				return nil, errMalformed
			}
			if _, brk := v.(breakMarker); brk {
				return nil, errMalformed
			}
			switch k.(type) {
			case string, uint64, int64, bool, float64:
				out[k] = v
			default:
				return nil, errors.New("cbor: invalid map key type")
			}
		}
	case tEnd:
		return breakMarker{}, nil
	}
	return nil, errMalformed
}

// Decode reads the next value into *v (v must be *interface{}).
func (d *Decoder) Decode(v interface{}) error {
	p, ok := v.(*interface{})
	if !ok {
		return errors.New("cbor model: Decode target must be *interface{}")
	}
	x, err := d.value(0)
	if err != nil {
		return err
	}
	if _, brk := x.(breakMarker); brk {
		return errMalformed
	}
	*p = x
	return nil
}
