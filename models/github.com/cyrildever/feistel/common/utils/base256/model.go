// Model of base256.Readable: the raw cipher bytes (String(true) and Bytes() of the real type
// both return the raw bytes; the "readable" charset rendering is not used by the processor).
package base256

type Readable string

func (b256 Readable) Bytes() []byte                { return []byte(b256) }
func (b256 Readable) String(useAscii ...bool) string { return string(b256) }
func (b256 Readable) Len() int                     { return len(b256) }
