// Model of github.com/cyrildever/feistel used by the verification harnesses (overlaid over the
// real package). CONTRACT (trusted, listed in the evidence): FPECipher.Encrypt is a deterministic,
// length-preserving injection E on byte strings, "" maps to "". Under the symbolic engine VerifE is an
// uninterpreted function with instantiated inverse axioms D(E(x)) = x; natively it is a fixed
// position-dependent byte-wise bijection so that harnesses compile and counterexamples can be replayed.
package feistel

import (
	"github.com/cyrildever/feistel/common/utils/base256"
	"github.com/cyrildever/feistel/common/utils/hash"
)

type FPECipher struct {
	Engine hash.Engine
	Key    string
	Rounds int
}

func NewFPECipher(engine hash.Engine, key string, rounds int) *FPECipher {
	return &FPECipher{Engine: engine, Key: key, Rounds: rounds}
}

// VerifEHook (replay only): points of E fixed by a solver counterexample take precedence over the fixed bijection.
var VerifEHook func(string) (string, bool)

// VerifE is the cipher contract (see package comment).
func VerifE(src string) string {
	if VerifEHook != nil {
		if out, ok := VerifEHook(src); ok {
			return out
		}
	}
	b := []byte(src)
	for i := range b {
		b[i] = b[i] ^ 0x5A ^ byte(len(b)*31+i*7)
	}
	return string(b)
}

func (f FPECipher) Encrypt(src string) (base256.Readable, error) {
	if len(src) == 0 {
		return "", nil
	}
	return base256.Readable(VerifE(src)), nil
}
