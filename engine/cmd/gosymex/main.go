package main

import (
	"runtime/pprof"
	"flag"
	"fmt"
	"os"
	"sort"
	"strconv"
	"strings"
	"time"

	"verif/engine/smt"
	"verif/engine/sym"
)

func main() {
	if len(os.Args) < 2 {
		fmt.Fprintln(os.Stderr, "usage: gosymex run|check|replay ...")
		os.Exit(2)
	}
	switch os.Args[1] {
	case "run":
		cmdRun(os.Args[2:])
	case "check":
		os.Exit(cmdCheck(os.Args[2:]))
	case "replay":
		os.Exit(cmdReplay(os.Args[2:]))
	default:
		fmt.Fprintln(os.Stderr, "unknown command", os.Args[1])
		os.Exit(2)
	}
}

type paramFlags map[string]int

func (p paramFlags) String() string { return fmt.Sprint(map[string]int(p)) }
func (p paramFlags) Set(s string) error {
	kv := strings.SplitN(s, "=", 2)
	if len(kv) != 2 {
		return fmt.Errorf("want k=v")
	}
	v, err := strconv.Atoi(kv[1])
	if err != nil {
		return err
	}
	p[kv[0]] = v
	return nil
}

func cmdRun(args []string) {
	fs := flag.NewFlagSet("run", flag.ExitOnError)
	root := fs.String("verif", "/verif", "verif root")
	mod := fs.String("module", "root", "module key")
	pkg := fs.String("pkg", "", "package import path (default: module path)")
	harness := fs.String("harness", "", "harness function")
	workers := fs.Int("workers", 8, "workers")
	models := fs.String("models", "", "comma-separated model import paths")
	stepLimit := fs.Int64("steps", 0, "step limit per path (default 20M)")
	verbose := fs.Bool("v", false, "verbose")
	unwind := fs.Int("unwind", 64, "unwinding cap")
	sched := fs.Bool("sched", false, "scheduler mode")
	maporder := fs.Bool("maporder", false, "nondeterministic map order")
	known := fs.String("known", "", "comma-separated active known-finding ids")
	solverName := fs.String("solver", "z3", "z3|z3-new|cvc5")
	preempt := fs.Int("preempt", 2, "preemption bound")
	timeoutS := fs.Int("timeout", 120, "seconds")
	maxPaths := fs.Int("maxpaths", 0, "max paths")
	cpuprof := fs.String("cpuprofile", "", "write cpu profile")
	smtlog := fs.String("smtlog", "", "log worker 0 queries")
	params := paramFlags{}
	fs.Var(params, "param", "k=v")
	fs.Parse(args)
	if *verbose {
		smt.SlowLog = os.Stderr
	}
	m := sym.Modules[*mod]
	var ml []string
	if *models != "" {
		ml = strings.Split(*models, ",")
	}
	t0 := time.Now()
	p := *pkg
	if p == "" {
		p = m.Path
	} else if !strings.HasPrefix(p, m.Path) {
		p = pkgPath(m, p)
	}
	prog, err := sym.Load(*root, m, ml, []string{p})
	if err != nil {
		fmt.Fprintln(os.Stderr, err)
		os.Exit(2)
	}
	fmt.Fprintf(os.Stderr, "loaded in %v\n", time.Since(t0))
	fn, err := prog.Harness(p, *harness)
	if err != nil {
		fmt.Fprintln(os.Stderr, err)
		os.Exit(2)
	}
	ka := map[string]bool{}
	for _, k := range strings.Split(*known, ",") {
		if k != "" {
			ka[k] = true
		}
	}
	ex := sym.NewExplorer(prog.Prog, sym.Config{Harness: fn, Params: params, Workers: *workers, Verbose: *verbose, UnwindCap: *unwind, Scheduler: *sched, MapOrderNondet: *maporder, KnownActive: ka, SolverName: *solverName, SmtLog: *smtlog, MaxPreempt: *preempt, MaxPaths: *maxPaths, StepLimit: *stepLimit, Deadline: time.Now().Add(time.Duration(*timeoutS) * time.Second)})
	if *cpuprof != "" {
		f, _ := os.Create(*cpuprof)
		pprof.StartCPUProfile(f)
		defer pprof.StopCPUProfile()
	}
	t1 := time.Now()
	ex.Run()
	fmt.Printf("paths=%d outcomes=%v decisions=%d time=%v\n", ex.Paths, ex.Outcomes, ex.Decisions, time.Since(t1))
	fmt.Printf("solver: queries=%d sat=%d unsat=%d unknown=%d errors=%d time=%v cachehits=%d\n", ex.Stats.Queries, ex.Stats.Sat, ex.Stats.Unsat, ex.Stats.Unknown, ex.Stats.Errors, ex.Stats.Time, ex.CacheHits())
	fmt.Printf("reached=%v\n", ex.Reached)
	for _, s := range ex.Inconcl {
		fmt.Println("INCONCLUSIVE:", s)
	}
	for _, v := range ex.Viol {
		fmt.Printf("VIOL kind=%s id=%s known=%q site=%s msg=%s\n  nondet=%v\n", v.Kind, v.AssertID, v.Known, v.Site, v.Msg, v.Nondet)
		if *verbose {
			for _, s := range v.Stack {
				fmt.Println("    ", s)
			}
		}
	}
	if *verbose {
		var fns []string
		for f, n := range ex.Funcs {
			fns = append(fns, fmt.Sprintf("%s (%d)", f, n))
		}
		sort.Strings(fns)
		fmt.Println("functions encoded:", len(fns))
		for s := range ex.Stubs {
			fmt.Println("stub:", s)
		}
		for s := range ex.Bounds {
			fmt.Println("bound:", s)
		}
	}
}



