package main

import (
	"bufio"
	"bytes"
	"context"
	"encoding/json"
	"flag"
	"fmt"
	"math/rand"
	"os"
	"os/exec"
	"path/filepath"
	"sort"
	"strconv"
	"strings"
	"sync"
	"time"

	"golang.org/x/tools/go/ssa"

	"verif/engine/sym"
)

type Obligation struct {
	ID        string                    `json:"id"`
	Module    string                    `json:"module"`
	Pkg       string                    `json:"pkg"` // relative to the module path
	Harness   string                    `json:"harness"`
	Params    map[string]map[string]int `json:"params"`
	Asserts   []string                  `json:"asserts"`
	// EngineReplay: the violated assertion is about the engine's own observation of the execution (which cells
	// were stored to), which the compiled program cannot observe: a counterexample the native run does not
	// reproduce is confirmed by deterministic re-execution of its decision vector in the engine.
	EngineReplay bool `json:"engine_replay"`
	// ReportOnly narrows what this obligation reports to the clauses of ITS property when it re-uses a harness written
	// for another one: "panic:producer" / "panic:consumer" (a panic below arrow_record.Producer / Consumer),
	// "panic" (any), "assert:<suffix>". Everything else the harness asserts is left to the property it belongs to.
	ReportOnly []string `json:"report_only"`
	Models    []string                  `json:"models"`
	Sched     bool                      `json:"sched"`
	MapOrder  bool                      `json:"maporder"`
	Unwind    int                       `json:"unwind"`
	Desc      string                    `json:"desc"`
	Bounds    []string                  `json:"bounds"`
	Outside   []string                  `json:"outside"`
	Tiers     []string                  `json:"tiers"`
	MaxPaths  map[string]int            `json:"max_paths"`
	TimeoutS  map[string]int            `json:"timeout_s"`
	ConcLimit int                       `json:"conc_limit"`
	StepLimit int64                     `json:"step_limit"`
	QueryMs   map[string]int            `json:"query_ms"`
	Solver    string                    `json:"solver"`
	Preempt   map[string]int            `json:"preempt"`
	NoNative  bool                      `json:"no_native"` // schedule-dependent: authoritative replay is the engine's
}

type PropertyChecks struct {
	Obligations []Obligation `json:"obligations"`
	Assumptions []string     `json:"assumptions"`
	Notes       string       `json:"notes"`
}

type KnownFinding struct {
	Property   string `json:"property"`
	ID         string `json:"id,omitempty"`
	Obligation string `json:"obligation,omitempty"`
	What       string `json:"what"`
	Fixed      bool   `json:"fixed,omitempty"`
	Commit     string `json:"commit,omitempty"`
}

type ReplayFile struct {
	Property   string            `json:"property"`
	Obligation string            `json:"obligation"`
	Module     string            `json:"module"`
	Pkg        string            `json:"pkg"`
	Harness    string            `json:"harness"`
	Models     []string          `json:"models"`
	Params     map[string]int    `json:"params"`
	Nondet     []sym.ReplayVal   `json:"nondet"`
	Decisions  []sym.Decision    `json:"decisions"`
	Outcome    string            `json:"outcome"`
	AssertID   string            `json:"assert_id"`
	Site       string            `json:"site"`
	Msg        string            `json:"msg"`
	Known      string            `json:"known,omitempty"`
	Stack      []string          `json:"stack,omitempty"`
	Sched      []string          `json:"sched,omitempty"`
	Native     map[string]string `json:"native,omitempty"`
	Preempt    int               `json:"preempt,omitempty"` // delay bound the decision vector was found under
	Tier       string            `json:"tier,omitempty"`
}

type oblResult struct {
	ob        Obligation
	params    map[string]int
	ex        *sym.Explorer
	wall      time.Duration
	vacuous   []string
	validated int
	mismatch  []string
	confirmed []confirmedViol
	unconf    []string
	skipped   string
}

type confirmedViol struct {
	v      sym.Violation
	replay string
}

func hasTier(ob Obligation, tier string) bool {
	if len(ob.Tiers) == 0 {
		return true
	}
	for _, t := range ob.Tiers {
		if t == tier {
			return true
		}
	}
	return false
}

// foreignAssert: assertions that ride along in shared helpers but belong to one property only (the C15
// frame/release conditions inside the round-trip helpers and the C12 history harness) are reported by that
// property's obligations alone. All other assertions are reported by every obligation that reaches them.
func foreignAssert(id, prop string) bool {
	for _, pre := range []string{"C15."} {
		if strings.HasPrefix(id, pre) && !strings.HasPrefix(pre, prop) {
			return true
		}
	}
	return false
}

func stackHas(v sym.Violation, sub string) bool {
	for _, f := range v.Stack {
		if strings.Contains(f, sub) {
			return true
		}
	}
	return strings.Contains(v.Site, sub)
}

func reportedHere(only []string, v sym.Violation) bool {
	if len(only) == 0 {
		return true
	}
	if v.Kind != "assert" && v.Kind != "panic" {
		return true
	}
	for _, pat := range only {
		switch {
		case pat == "panic":
			if v.Kind == "panic" {
				return true
			}
		case pat == "panic:producer":
			if v.Kind == "panic" && (stackHas(v, "arrow_record.Producer)") || !stackHas(v, "arrow_record.Consumer)")) {
				return true
			}
		case pat == "panic:consumer":
			if v.Kind == "panic" && (stackHas(v, "arrow_record.Consumer)") || !stackHas(v, "arrow_record.Producer)")) {
				return true
			}
		case strings.HasPrefix(pat, "assert:"):
			if v.Kind == "assert" && strings.HasSuffix(v.AssertID, pat[len("assert:"):]) {
				return true
			}
		}
	}
	return false
}

func pkgPath(m sym.Module, rel string) string {
	if rel == "" {
		return m.Path
	}
	return m.Path + "/" + rel
}

func readJSON(path string, v interface{}) error {
	b, err := os.ReadFile(path)
	if err != nil {
		return err
	}
	return json.Unmarshal(b, v)
}

// nativeBuilder builds (once per module/models/pkg) a test binary that can run any harness natively.
type nativeBuilder struct {
	mu    sync.Mutex
	root  string
	work  string
	built map[string]string
	errs  map[string]error
}

func (nb *nativeBuilder) binary(prog *sym.Program, pkg string) (string, error) {
	nb.mu.Lock()
	defer nb.mu.Unlock()
	key := prog.Module.Key + "|" + pkg + "|" + strings.Join(modelsOf(prog), ",")
	if b, ok := nb.built[key]; ok {
		return b, nb.errs[key]
	}
	var spkg *ssa.Package
	for _, sp := range prog.Prog.AllPackages() {
		if sp.Pkg.Path() == pkg {
			spkg = sp
		}
	}
	if spkg == nil {
		return "", fmt.Errorf("package %s not loaded", pkg)
	}
	var names []string
	for name, mem := range spkg.Members {
		if f, ok := mem.(*ssa.Function); ok && strings.HasPrefix(name, "VerifHarness_") && f.Signature.Params().Len() == 0 {
			names = append(names, name)
		}
	}
	sort.Strings(names)
	var src bytes.Buffer
	fmt.Fprintf(&src, "package %s\n\nimport (\n\t\"os\"\n\t\"testing\"\n)\n\nvar zzVerifHarnesses = map[string]func(){\n", spkg.Pkg.Name())
	for _, n := range names {
		fmt.Fprintf(&src, "\t%q: %s,\n", n, n)
	}
	fmt.Fprintf(&src, "}\n\nfunc TestVerifReplay(t *testing.T) {\n\tf := zzVerifHarnesses[os.Getenv(\"VERIF_HARNESS\")]\n\tif f == nil {\n\t\tt.Fatal(\"no such harness\")\n\t}\n\tf()\n}\n")
	dir := filepath.Join(nb.work, fmt.Sprintf("n%d", len(nb.built)))
	os.MkdirAll(dir, 0o755)
	testFile := filepath.Join(dir, "zz_verif_replay_test.go")
	os.WriteFile(testFile, src.Bytes(), 0o644)
	rel := strings.TrimPrefix(strings.TrimPrefix(pkg, prog.Module.Path), "/")
	repl := map[string]string{}
	for v, r := range prog.Ov.Replace {
		repl[v] = r
	}
	repl[filepath.Join(prog.Module.Dir, filepath.FromSlash(rel), "zz_verif_replay_test.go")] = testFile
	ovb, _ := json.Marshal(map[string]interface{}{"Replace": repl})
	ovFile := filepath.Join(dir, "overlay.json")
	os.WriteFile(ovFile, ovb, 0o644)
	bin := filepath.Join(dir, "pkg.test")
	cmd := exec.Command("go", "test", "-c", "-vet=off", "-overlay", ovFile, "-o", bin, pkg)
	cmd.Dir = prog.Module.Dir
	cmd.Env = sym.ModEnv(prog.Module.Dir)
	out, err := cmd.CombinedOutput()
	if err != nil {
		err = fmt.Errorf("native build of %s failed: %v\n%s", pkg, err, tail(string(out), 3000))
	}
	nb.built[key] = bin
	nb.errs[key] = err
	return bin, err
}

func modelsOf(p *sym.Program) []string {
	ms := append([]string{}, p.Ov.Models...)
	sort.Strings(ms)
	return ms
}

func tail(s string, n int) string {
	if len(s) <= n {
		return s
	}
	return "..." + s[len(s)-n:]
}

type nativeRun struct {
	exit     int
	out      string
	observes []sym.ObservedVal
	timedOut bool
}

func runNative(bin, harness, replayPath, dir string) nativeRun {
	ctx, cancel := context.WithTimeout(context.Background(), 120*time.Second)
	defer cancel()
	cmd := exec.CommandContext(ctx, bin, "-test.run", "^TestVerifReplay$", "-test.count=1", "-test.timeout=100s")
	cmd.Dir = dir
	cmd.Env = append(sym.GoEnv(), "VERIF_REPLAY="+replayPath, "VERIF_HARNESS="+harness)
	out, err := cmd.CombinedOutput()
	r := nativeRun{out: string(out)}
	if ctx.Err() != nil {
		r.timedOut = true
	}
	if err != nil {
		if ee, ok := err.(*exec.ExitError); ok {
			r.exit = ee.ExitCode()
		} else {
			r.exit = -1
		}
	}
	sc := bufio.NewScanner(bytes.NewReader(out))
	sc.Buffer(make([]byte, 1<<20), 1<<24)
	for sc.Scan() {
		l := sc.Text()
		if strings.HasPrefix(l, "OBSERVE ") {
			parts := strings.SplitN(l, " ", 3)
			if len(parts) == 3 {
				r.observes = append(r.observes, sym.ObservedVal{Tag: parts[1], Val: parts[2]})
			}
		}
	}
	return r
}

func writeReplay(path string, rf *ReplayFile) {
	b, _ := json.MarshalIndent(rf, "", " ")
	os.WriteFile(path, b, 0o644)
}

func cmdCheck(args []string) int {
	fs := flag.NewFlagSet("check", flag.ExitOnError)
	root := fs.String("verif", "/verif", "verif root")
	property := fs.String("property", "", "property id")
	tier := fs.String("tier", "quick", "quick|thorough")
	only := fs.String("only", "", "run only this obligation id")
	skipNative := fs.Bool("skip-native", false, "skip native replay/validation (debug)")
	noEvidence := fs.Bool("no-evidence", false, "do not write the evidence file (debug)")
	workers := fs.Int("workers", 16, "workers")
	fs.Parse(args)
	if os.Getenv("VERIF_REPO") != "" {
		*noEvidence = true // evidence only ever comes from /repo itself
	}
	if w, err := strconv.Atoi(os.Getenv("VERIF_WORKERS")); err == nil && w > 0 {
		*workers = w
	}
	if os.Getenv("VERIF_TIER") != "" && *tier == "" {
		*tier = os.Getenv("VERIF_TIER")
	}
	seed := int64(0)
	if s := os.Getenv("VERIF_SEED"); s != "" {
		seed, _ = strconv.ParseInt(s, 10, 64)
	}
	t0 := time.Now()
	var all map[string]PropertyChecks
	if err := readJSON(filepath.Join(*root, "checks.json"), &all); err != nil {
		fmt.Printf("INCONCLUSIVE property=%s reason=checks.json: %v\n", *property, err)
		return 2
	}
	pc, ok := all[*property]
	if !ok {
		fmt.Printf("INCONCLUSIVE property=%s reason=no checks registered\n", *property)
		return 2
	}
	var known []KnownFinding
	readJSON(filepath.Join(*root, "known_findings.json"), &known)
	knownWhat := map[string]string{}
	for _, k := range known {
		if !k.Fixed && k.Property == *property {
			knownWhat[k.ID] = k.What
		}
	}

	work := filepath.Join(*root, ".work", fmt.Sprintf("%d", os.Getpid()))
	os.MkdirAll(work, 0o755)
	defer os.RemoveAll(work)
	replayDir := filepath.Join(*root, "replays")
	os.MkdirAll(replayDir, 0o755)
	// remove stale replays of this property
	if old, _ := filepath.Glob(filepath.Join(replayDir, *property+".*")); old != nil {
		for _, o := range old {
			os.Remove(o)
		}
	}
	nb := &nativeBuilder{root: *root, work: work, built: map[string]string{}, errs: map[string]error{}}

	// group obligations by module+models
	type group struct {
		module string
		models []string
		obs    []Obligation
	}
	groups := map[string]*group{}
	var gkeys []string
	for _, ob := range pc.Obligations {
		if !hasTier(ob, *tier) || (*only != "" && ob.ID != *only) {
			continue
		}
		k := ob.Module + "|" + strings.Join(ob.Models, ",")
		if groups[k] == nil {
			groups[k] = &group{module: ob.Module, models: ob.Models}
			gkeys = append(gkeys, k)
		}
		groups[k].obs = append(groups[k].obs, ob)
	}
	var results []*oblResult
	var machinery []string
	for _, gk := range gkeys {
		g := groups[gk]
		m := sym.Modules[g.module]
		var need []string
		seenPkg := map[string]bool{}
		for _, ob := range g.obs {
			pp := pkgPath(m, ob.Pkg)
			if !seenPkg[pp] {
				seenPkg[pp] = true
				need = append(need, pp)
			}
		}
		prog, err := sym.Load(*root, m, g.models, need)
		if err != nil {
			machinery = append(machinery, "load "+g.module+": "+err.Error())
			continue
		}
		for _, ob := range g.obs {
			r := &oblResult{ob: ob, params: ob.Params[*tier]}
			if r.params == nil {
				r.params = ob.Params["quick"]
			}
			results = append(results, r)
			fn, err := prog.Harness(pkgPath(m, ob.Pkg), ob.Harness)
			if err != nil {
				machinery = append(machinery, ob.ID+": "+err.Error())
				continue
			}
			ka := map[string]bool{}
			for id := range knownWhat {
				ka[id] = true
			}
			cfg := sym.Config{Harness: fn, Params: r.params, Workers: *workers, UnwindCap: ob.Unwind, Scheduler: ob.Sched,
				MapOrderNondet: ob.MapOrder, KnownActive: ka, ConcLimit: ob.ConcLimit, StepLimit: ob.StepLimit, SolverName: ob.Solver}
			cfg.MaxPreempt = ob.Preempt[*tier]
			if mp := ob.MaxPaths[*tier]; mp > 0 {
				cfg.MaxPaths = mp
			}
			if q := ob.QueryMs[*tier]; q > 0 {
				cfg.SolverTimeout = q
			} else if *tier == "thorough" {
				cfg.SolverTimeout = 120000
			}
			to := ob.TimeoutS[*tier]
			if to == 0 {
				to = 600
				if *tier == "thorough" {
					to = 3000
				}
			}
			cfg.Deadline = time.Now().Add(time.Duration(to) * time.Second)
			if *tier == "thorough" {
				cfg.SmtLog = filepath.Join(work, ob.ID+".smt2")
			}
			ex := sym.NewExplorer(prog.Prog, cfg)
			t1 := time.Now()
			ex.Run()
			r.ex = ex
			r.wall = time.Since(t1)
			// an assertion named after another property (e.g. the C15 frame condition inside the round-trip
			// helpers) is decided by that property's own obligations, not reported under this one
			{
				keep := ex.Viol[:0]
				for _, v := range ex.Viol {
					if v.Kind == "assert" && foreignAssert(v.AssertID, *property) {
						continue
					}
					if !reportedHere(ob.ReportOnly, v) {
						continue
					}
					keep = append(keep, v)
				}
				ex.Viol = keep
			}
			for _, a := range ob.Asserts {
				if ex.Reached[a] == 0 {
					r.vacuous = append(r.vacuous, a)
				}
			}
			fmt.Fprintf(os.Stderr, "[%s] paths=%d outcomes=%v queries=%d (sat %d unsat %d unknown %d) solver=%.1fs wall=%.1fs viol=%d\n",
				ob.ID, ex.Paths, ex.Outcomes, ex.Stats.Queries, ex.Stats.Sat, ex.Stats.Unsat, ex.Stats.Unknown, ex.Stats.Time.Seconds(), r.wall.Seconds(), len(ex.Viol))

			// ---- native stage: replay violations, validate sampled passing paths ----
			if *skipNative {
				continue
			}
			bin, err := nb.binary(prog, pkgPath(m, ob.Pkg))
			if err != nil {
				machinery = append(machinery, ob.ID+": "+err.Error())
				continue
			}
			nrep := 0
			for _, v := range ex.Viol {
				nrep++
				rp := filepath.Join(replayDir, fmt.Sprintf("%s.%s.%d.json", *property, ob.ID, nrep))
				rf := &ReplayFile{Property: *property, Obligation: ob.ID, Module: ob.Module, Pkg: ob.Pkg, Harness: ob.Harness, Models: ob.Models,
					Params: r.params, Nondet: v.Nondet, Decisions: v.Decisions, Outcome: v.Kind, AssertID: v.AssertID, Site: v.Site, Msg: v.Msg,
					Known: v.Known, Stack: v.Stack, Sched: v.Sched, Preempt: ob.Preempt[*tier], Tier: *tier}
				writeReplay(rp, rf)
				reproduced := false
				detail := ""
				nativeOK := false
				if !ob.NoNative && v.Kind != "deadlock" {
					tries := 1
					if ob.Sched {
						tries = 3
					}
					for t := 0; t < tries && !nativeOK; t++ {
						nr := runNative(bin, ob.Harness, rp, m.Dir)
						switch v.Kind {
						case "assert":
							nativeOK = strings.Contains(nr.out, "REPLAY-ASSERT-FAILED "+v.AssertID)
						case "panic":
							nativeOK = strings.Contains(nr.out, "panic:") && !strings.Contains(nr.out, "REPLAY-")
						}
						detail = tail(nr.out, 1500)
					}
					reproduced = nativeOK
				}
				engineOK := ""
				if !reproduced && (ob.Sched || ob.NoNative || ob.MapOrder || ob.EngineReplay) {
					// schedule / map-order dependent: deterministic re-execution in the engine is authoritative
					vs, outcome := ex.Reexec(v.Decisions)
					for _, w := range vs {
						if w.Kind == v.Kind && w.AssertID == v.AssertID {
							reproduced = true
							engineOK = "reproduced by deterministic re-execution of the decision vector in the engine (" + outcome + ")"
						}
					}
					if !reproduced {
						engineOK = "engine re-execution did not reproduce: " + outcome
					}
				}
				rf.Native = map[string]string{"reproduced": fmt.Sprint(reproduced), "native_reproduced": fmt.Sprint(nativeOK), "engine_reexec": engineOK, "output_tail": detail}
				writeReplay(rp, rf)
				if reproduced {
					r.confirmed = append(r.confirmed, confirmedViol{v: v, replay: rp})
				} else {
					r.unconf = append(r.unconf, fmt.Sprintf("%s %s %s: native run did not reproduce (%s)", v.Kind, v.AssertID, v.Site, rp))
				}
			}
			// translator validation
			K := 5
			if *tier == "thorough" {
				K = 40
			}
			rng := rand.New(rand.NewSource(seed + 1))
			idx := rng.Perm(len(ex.Samples))
			if len(idx) > K {
				idx = idx[:K]
			}
			if ob.NoNative {
				idx = nil
			}
			var wg sync.WaitGroup
			var mu sync.Mutex
			sem := make(chan struct{}, 8)
			for n, si := range idx {
				wg.Add(1)
				go func(n, si int) {
					defer wg.Done()
					sem <- struct{}{}
					defer func() { <-sem }()
					s := ex.Samples[si]
					rp := filepath.Join(work, fmt.Sprintf("%s.sample%d.json", ob.ID, n))
					writeReplay(rp, &ReplayFile{Property: *property, Obligation: ob.ID, Harness: ob.Harness, Params: r.params, Nondet: s.Nondet})
					nr := runNative(bin, ob.Harness, rp, m.Dir)
					mu.Lock()
					defer mu.Unlock()
					bad := ""
					switch {
					case s.Outcome == "completed" && nr.exit != 0:
						bad = fmt.Sprintf("engine: completed, native: exit %d: %s", nr.exit, tail(nr.out, 600))
					case s.Outcome == "panic" && !strings.Contains(nr.out, "panic:"):
						bad = "engine: panic, native: no panic"
					case ob.Sched:
						// schedule-dependent observations are not compared; the run must pass its assertions
					case s.Outcome == "completed" && len(nr.observes) != len(s.Observes):
						bad = fmt.Sprintf("engine observed %d values, native %d", len(s.Observes), len(nr.observes))
					}
					if bad == "" && s.Outcome == "completed" && !ob.Sched {
						for k := range s.Observes {
							if strings.Contains(s.Observes[k].Val, "?") {
								continue
							}
							if s.Observes[k] != nr.observes[k] {
								bad = fmt.Sprintf("observe #%d: engine %v native %v", k, s.Observes[k], nr.observes[k])
								break
							}
						}
					}
					if bad != "" {
						keep := filepath.Join(replayDir, fmt.Sprintf("%s.%s.mismatch%d.json", *property, ob.ID, n))
						writeReplay(keep, &ReplayFile{Property: *property, Obligation: ob.ID, Module: ob.Module, Pkg: ob.Pkg, Harness: ob.Harness, Models: ob.Models, Params: r.params, Nondet: s.Nondet, Decisions: s.Decisions, Outcome: "mismatch", Msg: bad})
						r.mismatch = append(r.mismatch, bad+" ("+keep+")")
					} else {
						r.validated++
					}
				}(n, si)
			}
			wg.Wait()
			// solver diff (thorough): re-run worker 0's query log through the other solvers
			if *tier == "thorough" && cfg.SmtLog != "" {
				for _, other := range []string{"z3", "z3-new", "cvc5"} {
					if other == ob.Solver || (ob.Solver == "" && other == "z3") {
						continue
					}
					if d := solverDiff(cfg.SmtLog, other, 600); d != "" {
						machinery = append(machinery, ob.ID+": solver diff vs "+other+": "+d)
					}
				}
			}
		}
	}

	// ---- verdict ----
	exit := 0
	var lines []string
	nViol := 0
	knownSeen := map[string]bool{}
	for _, r := range results {
		for _, cv := range r.confirmed {
			if cv.v.Known != "" {
				if !knownSeen[cv.v.Known] {
					knownSeen[cv.v.Known] = true
					lines = append(lines, fmt.Sprintf("KNOWN-FINDING: property=%s %s %s (replay=%s)", *property, cv.v.Known, knownWhat[cv.v.Known], cv.replay))
				}
				continue
			}
			nViol++
			lines = append(lines, fmt.Sprintf("VIOLATION property=%s replay=%s", *property, cv.replay))
			lines = append(lines, fmt.Sprintf("  obligation=%s kind=%s assert=%s site=%s %s", r.ob.ID, cv.v.Kind, cv.v.AssertID, cv.v.Site, cv.v.Msg))
		}
	}
	if nViol > 0 {
		exit = 1
	}
	for _, r := range results {
		if r.ex == nil {
			continue
		}
		for _, s := range r.ex.Inconcl {
			machinery = append(machinery, r.ob.ID+": "+firstLine(s))
		}
		for _, a := range r.vacuous {
			machinery = append(machinery, r.ob.ID+": vacuous: assertion "+a+" never reached on a feasible path")
		}
		for _, s := range r.mismatch {
			machinery = append(machinery, r.ob.ID+": ENGINE-MISMATCH "+s)
		}
		for _, s := range r.unconf {
			machinery = append(machinery, r.ob.ID+": ENGINE-MISMATCH "+s)
		}
		// unknown answers to *pruning* queries keep the branch (over-approximation) and are
		// harmless; an unknown answer to an assertion query ends its path as outcome "solver",
		// which is already listed in Inconcl. Error lines are never acceptable.
		if r.ex.Stats.Errors > 0 {
			machinery = append(machinery, fmt.Sprintf("%s: %d (error ...) lines from the solver", r.ob.ID, r.ex.Stats.Errors))
		}
	}
	for id, what := range knownWhat {
		if !knownSeen[id] && *only == "" {
			lines = append(lines, fmt.Sprintf("NOTE property=%s listed known finding %s was not reproduced by this tier (%s)", *property, id, what))
		}
	}
	if len(machinery) > 0 && exit == 0 {
		exit = 2
	}
	for _, l := range lines {
		fmt.Println(l)
	}
	for _, mline := range machinery {
		fmt.Printf("INCONCLUSIVE property=%s reason=%s\n", *property, mline)
	}
	wall := time.Since(t0)
	if !*noEvidence && *only == "" {
		writeEvidence(*root, *property, *tier, seed, pc, results, machinery, nViol, knownSeen, knownWhat, wall)
	}
	if exit == 0 {
		tp, tq := 0, 0
		for _, r := range results {
			if r.ex != nil {
				tp += r.ex.Paths
				tq += r.ex.Stats.Queries
			}
		}
		fmt.Printf("OK property=%s tier=%s obligations=%d paths=%d queries=%d wall=%.1fs\n", *property, *tier, len(results), tp, tq, wall.Seconds())
	}
	return exit
}

func firstLine(s string) string {
	if k := strings.IndexByte(s, '\n'); k >= 0 {
		return s[:k]
	}
	return s
}

// solverDiff replays a query log through another solver and compares verdicts.
func solverDiff(log, solver string, maxQueries int) string {
	b, err := os.ReadFile(log)
	if err != nil {
		return ""
	}
	var want []string
	var script bytes.Buffer
	n := 0
	for _, l := range strings.Split(string(b), "\n") {
		if strings.HasPrefix(l, "; => ") {
			want = append(want, strings.TrimPrefix(l, "; => "))
			n++
			if n >= maxQueries {
				break
			}
			continue
		}
		if strings.HasPrefix(l, "(echo") || strings.HasPrefix(l, "(get-value") || strings.HasPrefix(l, "(set-logic") {
			continue
		}
		if strings.HasPrefix(l, "(set-option :produce-models") {
			// start of a prelude: the primary solver was (re)started or reset here; the other solver gets a reset
			// and its own prelude
			script.WriteString("(reset)\n")
			if solver == "cvc5" {
				script.WriteString("(set-logic ALL)\n")
			}
		}
		script.WriteString(l + "\n")
	}
	argv := sym.SolverArgvFor(solver, 60000)
	ctx, cancel := context.WithTimeout(context.Background(), 20*time.Minute)
	defer cancel()
	cmd := exec.CommandContext(ctx, argv[0], argv[1:]...)
	cmd.Stdin = &script
	out, _ := cmd.Output()
	var got []string
	for _, l := range strings.Split(string(out), "\n") {
		l = strings.TrimSpace(l)
		if l == "sat" || l == "unsat" || l == "unknown" || l == "timeout" {
			got = append(got, l)
		}
		if strings.HasPrefix(l, "(error") {
			return "error line from " + solver + ": " + l
		}
	}
	if len(got) < len(want) {
		return fmt.Sprintf("%s answered %d of %d queries", solver, len(got), len(want))
	}
	for k := range want {
		if want[k] == "unknown" || got[k] == "unknown" || got[k] == "timeout" {
			continue
		}
		if want[k] != got[k] {
			return fmt.Sprintf("query %d: primary %s, %s %s", k, want[k], solver, got[k])
		}
	}
	return ""
}

func writeEvidence(root, property, tier string, seed int64, pc PropertyChecks, results []*oblResult, machinery []string, nViol int, knownSeen map[string]bool, knownWhat map[string]string, wall time.Duration) {
	states, transitions, validated := 0, 0, 0
	var samples []interface{}
	funcs := map[string]int{}
	stubs := map[string]bool{}
	bounds := []string{}
	outside := []string{}
	queries := map[string]int{}
	solverTime := 0.0
	discharged := 0
	var obls []interface{}
	for _, r := range results {
		if r.ex == nil {
			continue
		}
		ex := r.ex
		states += ex.Paths
		transitions += ex.Decisions + ex.Stats.Queries
		validated += r.validated
		for f, n := range ex.Funcs {
			funcs[f] = n
		}
		for s := range ex.Stubs {
			stubs[s] = true
		}
		for s := range ex.Bounds {
			bounds = append(bounds, r.ob.ID+": "+s)
		}
		for _, b := range r.ob.Bounds {
			bounds = append(bounds, r.ob.ID+": "+b)
		}
		for _, b := range r.ob.Outside {
			outside = append(outside, r.ob.ID+": "+b)
		}
		queries["sat"] += ex.Stats.Sat
		queries["unsat"] += ex.Stats.Unsat
		queries["unknown"] += ex.Stats.Unknown
		queries["error"] += ex.Stats.Errors
		solverTime += ex.Stats.Time.Seconds()
		ok := len(ex.Inconcl) == 0 && len(r.vacuous) == 0 && len(r.mismatch) == 0 && len(r.unconf) == 0
		unknownViol := 0
		for _, cv := range r.confirmed {
			if cv.v.Known == "" {
				unknownViol++
			}
		}
		if ok && unknownViol == 0 {
			discharged++
		}
		for k, s := range ex.Samples {
			if k >= 2 {
				break
			}
			samples = append(samples, map[string]interface{}{"obligation": r.ob.ID, "outcome": s.Outcome, "inputs": s.Nondet, "decisions": len(s.Decisions), "observed": s.Observes})
		}
		obls = append(obls, map[string]interface{}{
			"id": r.ob.ID, "harness": r.ob.Harness, "desc": r.ob.Desc, "params": r.params, "paths": ex.Paths, "outcomes": ex.Outcomes,
			"assert_sites_reached": ex.Reached, "queries": ex.Stats.Queries, "solver_time_s": ex.Stats.Time.Seconds(), "wall_s": r.wall.Seconds(),
			"violations_confirmed": len(r.confirmed), "traces_validated": r.validated, "held": ok && unknownViol == 0,
			"pruning_queries_unknown_kept": ex.KeptUnknown,
		})
	}
	var fl []string
	repoInstr := 0
	for f, n := range funcs {
		if strings.Contains(f, "open-telemetry/otel-arrow") && !strings.Contains(f, "zzverifrt") && !strings.Contains(f, "VerifHarness") {
			fl = append(fl, fmt.Sprintf("%s (%d instrs)", f, n))
			repoInstr += n
		}
	}
	sort.Strings(fl)
	var sl []string
	for s := range stubs {
		sl = append(sl, s)
	}
	sort.Strings(sl)
	sort.Strings(bounds)
	var kf []string
	for id := range knownSeen {
		kf = append(kf, id+": "+knownWhat[id])
	}
	sort.Strings(kf)
	if len(samples) == 0 {
		samples = append(samples, map[string]interface{}{"note": "no completed path sampled"})
	}
	ev := map[string]interface{}{
		"property_id": property,
		"tier":        tier,
		"seed":        seed,
		"level":       "model_checking",
		"coverage": map[string]interface{}{
			"states":                        max(states, 1),
			"transitions":                   max(transitions, 1),
			"traces_validated_against_impl": validated,
			"samples":                       samples,
			"obligations":                   len(obls),
			"discharged":                    discharged,
			"obligation_detail":             obls,
			"functions_encoded":             fl,
			"repo_functions_encoded":        len(fl),
			"repo_ssa_instructions_encoded": repoInstr,
			"all_functions_executed":        len(funcs),
			"bounds":                        bounds,
			"outside_the_claim":             outside,
			"stubs_and_models":              sl,
			"queries":                       queries,
			"solver_time_s":                 solverTime,
			"known_findings_seen":           kf,
			"machinery_problems":            machinery,
			"explanation":                   "states = feasible path prefixes explored (each path is one symbolic execution of the real SSA of the listed functions, deciding the assertions for every input on that path); transitions = decisions taken plus solver queries discharged; samples = concrete witnesses of explored paths (inputs in harness call order)",
			"exhaustive":                    len(machinery) == 0,
		},
		"assumptions": append([]string{
			"go/packages + go/ssa (x/tools v0.29.0) faithfully represent the source in /repo's working tree",
			"engine instruction semantics (validated per run against the compiled harness on sampled paths: traces_validated_against_impl)",
			"z3 4.8.12 verdicts (unknown/timeout/error lines are never counted as held)",
		}, pc.Assumptions...),
		"wall_s":     wall.Seconds(),
		"violations": nViol,
	}
	os.MkdirAll(filepath.Join(root, "evidence"), 0o755)
	b, _ := json.MarshalIndent(ev, "", " ")
	os.WriteFile(filepath.Join(root, "evidence", property+".json"), b, 0o644)
}

func cmdReplay(args []string) int {
	fs := flag.NewFlagSet("replay", flag.ExitOnError)
	root := fs.String("verif", "/verif", "verif root")
	fs.Parse(args)
	if fs.NArg() != 1 {
		fmt.Fprintln(os.Stderr, "usage: gosymex replay <file>")
		return 2
	}
	var rf ReplayFile
	if err := readJSON(fs.Arg(0), &rf); err != nil {
		fmt.Fprintln(os.Stderr, err)
		return 2
	}
	m := sym.Modules[rf.Module]
	prog, err := sym.Load(*root, m, rf.Models, []string{pkgPath(m, rf.Pkg)})
	if err != nil {
		fmt.Fprintln(os.Stderr, err)
		return 2
	}
	work := filepath.Join(*root, ".work", fmt.Sprintf("r%d", os.Getpid()))
	os.MkdirAll(work, 0o755)
	defer os.RemoveAll(work)
	nb := &nativeBuilder{root: *root, work: work, built: map[string]string{}, errs: map[string]error{}}
	bin, err := nb.binary(prog, pkgPath(m, rf.Pkg))
	if err != nil {
		fmt.Fprintln(os.Stderr, err)
		return 2
	}
	abs, _ := filepath.Abs(fs.Arg(0))
	nr := runNative(bin, rf.Harness, abs, m.Dir)
	fmt.Println(nr.out)
	rep := false
	switch rf.Outcome {
	case "assert":
		rep = strings.Contains(nr.out, "REPLAY-ASSERT-FAILED "+rf.AssertID)
	case "panic":
		rep = strings.Contains(nr.out, "panic:") && !strings.Contains(nr.out, "REPLAY-")
	}
	if rep {
		fmt.Printf("REPRODUCED %s %s %s\n", rf.Outcome, rf.AssertID, rf.Site)
		return 1
	}
	// schedule-dependent or engine-observed counterexamples (goroutine schedules, data races, frame conditions):
	// the authoritative replay is the deterministic re-execution of the decision vector in the engine
	var checks map[string]PropertyChecks
	if err := readJSON(filepath.Join(*root, "checks.json"), &checks); err == nil {
		for _, ob := range checks[rf.Property].Obligations {
			if ob.ID != rf.Obligation || !(ob.Sched || ob.NoNative || ob.MapOrder || ob.EngineReplay) {
				continue
			}
			fn, herr := prog.Harness(pkgPath(m, rf.Pkg), rf.Harness)
			if herr != nil {
				break
			}
			cfg := sym.Config{Harness: fn, Params: rf.Params, Workers: 1, UnwindCap: ob.Unwind, Scheduler: ob.Sched,
				MapOrderNondet: ob.MapOrder, KnownActive: map[string]bool{}, ConcLimit: ob.ConcLimit, StepLimit: ob.StepLimit, SolverName: ob.Solver}
			cfg.MaxPreempt = rf.Preempt
			cfg.Deadline = time.Now().Add(20 * time.Minute)
			ex := sym.NewExplorer(prog.Prog, cfg)
			vs, outcome := ex.Reexec(rf.Decisions)
			for _, w := range vs {
				if w.Kind == rf.Outcome && w.AssertID == rf.AssertID {
					fmt.Printf("REPRODUCED (engine re-execution of the decision vector: %s) %s %s %s %s\n", outcome, rf.Outcome, rf.AssertID, rf.Site, w.Msg)
					return 1
				}
			}
			fmt.Println("engine re-execution:", outcome)
		}
	}
	fmt.Println("NOT-REPRODUCED")
	return 0
}
