package sym

import (
	"time"
	"fmt"
	"os"
	"os/exec"
	"path/filepath"
	"sort"
	"strings"
	"sync"

	"golang.org/x/tools/go/packages"
	"golang.org/x/tools/go/ssa"
	"golang.org/x/tools/go/ssa/ssautil"
)

// Module describes one Go module of /repo that harnesses are injected into.
type Module struct {
	Key  string // short name used under /verif/harness/<Key>/
	Dir  string // absolute directory of the module
	Path string // module path
}

var Modules = map[string]Module{
	"root": {Key: "root", Dir: "/repo", Path: "github.com/open-telemetry/otel-arrow"},
	"cbp":  {Key: "cbp", Dir: "/repo/collector/processor/concurrentbatchprocessor", Path: "github.com/open-telemetry/otel-arrow/collector/processor/concurrentbatchprocessor"},
	"obf":  {Key: "obf", Dir: "/repo/collector/processor/obfuscationprocessor", Path: "github.com/open-telemetry/otel-arrow/collector/processor/obfuscationprocessor"},
}

func GoEnv() []string {
	env := os.Environ()
	env = append(env, "GOFLAGS=-mod=mod", "GOPROXY=off", "GOSUMDB=off", "GOTOOLCHAIN=local", "CGO_ENABLED=0")
	return env
}

// ModEnv is GoEnv for go commands run inside module dir: they read AND WRITE a scratch copy of the module's
// go.mod/go.sum (-modfile), never the files under the repository: with -mod=mod the go command rewrites go.mod
// when a harness imports a package of an indirect dependency directly, and nothing under /repo may be written.
func ModEnv(dir string) []string {
	modfileMu.Lock()
	defer modfileMu.Unlock()
	mf, ok := modfiles[dir]
	if !ok {
		// (scratch copies older than a day are leftovers of earlier runs)
		if old, _ := filepath.Glob(filepath.Join(os.TempDir(), "gosymex-mod-*")); len(old) > 0 {
			for _, d := range old {
				if st, e := os.Stat(d); e == nil && time.Since(st.ModTime()) > 24*time.Hour {
					os.RemoveAll(d)
				}
			}
		}
		tmp, err := os.MkdirTemp("", "gosymex-mod-")
		if err == nil {
			if b, e := os.ReadFile(filepath.Join(dir, "go.mod")); e == nil {
				mf = filepath.Join(tmp, "go.mod")
				os.WriteFile(mf, b, 0o644)
				if sb, e := os.ReadFile(filepath.Join(dir, "go.sum")); e == nil {
					os.WriteFile(filepath.Join(tmp, "go.sum"), sb, 0o644)
				}
			}
		}
		modfiles[dir] = mf
	}
	env := os.Environ()
	flags := "GOFLAGS=-mod=mod"
	if mf != "" {
		flags += " -modfile=" + mf
	}
	return append(env, flags, "GOPROXY=off", "GOSUMDB=off", "GOTOOLCHAIN=local", "CGO_ENABLED=0")
}

var (
	modfileMu sync.Mutex
	modfiles  = map[string]string{}
)

// Overlay maps virtual file paths to real files under verifRoot.
type Overlay struct {
	Replace map[string]string // virtual -> real path
	Pkgs    []string          // import paths of packages that contain harness files
	Models  []string          // virtual paths that carry model files
}

// BuildOverlay assembles the overlay for a module: rt package, harness files, library models.
func BuildOverlay(verifRoot string, m Module, models []string) (*Overlay, error) {
	ov := &Overlay{Replace: map[string]string{}}
	ov.Replace[filepath.Join(m.Dir, "zzverifrt", "rt.go")] = filepath.Join(verifRoot, "rt", "rt.go")
	hroot := filepath.Join(verifRoot, "harness", m.Key)
	pkgs := map[string]bool{}
	err := filepath.Walk(hroot, func(p string, info os.FileInfo, err error) error {
		if err != nil {
			return nil
		}
		if info.IsDir() || !strings.HasSuffix(p, ".go") {
			return nil
		}
		rel, _ := filepath.Rel(hroot, p)
		ov.Replace[filepath.Join(m.Dir, rel)] = p
		dir := filepath.Dir(rel)
		ip := m.Path
		if dir != "." {
			ip = m.Path + "/" + filepath.ToSlash(dir)
		}
		pkgs[ip] = true
		return nil
	})
	if err != nil {
		return nil, err
	}
	for p := range pkgs {
		ov.Pkgs = append(ov.Pkgs, p)
	}
	sort.Strings(ov.Pkgs)
	for _, model := range models {
		// model = import path; files under verifRoot/models/<import path>/
		mdir := filepath.Join(verifRoot, "models", filepath.FromSlash(model))
		cmd := exec.Command("go", "list", "-f", "{{.Dir}}|{{.Name}}", model)
		cmd.Dir = m.Dir
		cmd.Env = ModEnv(m.Dir)
		out, err := cmd.Output()
		if err != nil {
			return nil, fmt.Errorf("go list %s: %v", model, err)
		}
		parts := strings.Split(strings.TrimSpace(string(out)), "|")
		if len(parts) != 2 {
			return nil, fmt.Errorf("go list %s: unexpected %q", model, out)
		}
		real, name := parts[0], parts[1]
		ents, _ := os.ReadDir(real)
		emptyFile := filepath.Join(verifRoot, "models", "_empty", name+".go")
		os.MkdirAll(filepath.Dir(emptyFile), 0o755)
		if _, err := os.Stat(emptyFile); err != nil {
			os.WriteFile(emptyFile, []byte("package "+name+"\n"), 0o644)
		}
		var realFiles []string
		for _, e := range ents {
			n := e.Name()
			if strings.HasSuffix(n, ".go") && !strings.HasSuffix(n, "_test.go") {
				realFiles = append(realFiles, n)
				ov.Replace[filepath.Join(real, n)] = emptyFile
			}
		}
		sort.Strings(realFiles)
		ments, err := os.ReadDir(mdir)
		if err != nil {
			return nil, fmt.Errorf("model %s: %v", model, err)
		}
		k := 0
		for _, e := range ments {
			if strings.HasSuffix(e.Name(), ".go") {
				// the model file takes the place of an existing file of the package
				// (the go command does not pick up overlay files added to module-cache directories)
				if k >= len(realFiles) {
					return nil, fmt.Errorf("model %s has more files than the package it replaces", model)
				}
				ov.Replace[filepath.Join(real, realFiles[k])] = filepath.Join(mdir, e.Name())
				ov.Models = append(ov.Models, filepath.Join(real, realFiles[k]))
				k++
			}
		}
	}
	return ov, nil
}

type Program struct {
	Prog   *ssa.Program
	Pkgs   []*packages.Package
	Module Module
	Ov     *Overlay
}

// Load type-checks the harness packages of a module (with overlay) and builds SSA.
// ModelFiles: virtual paths of the library-model files of the loaded program (race detection does not track
// the models' own bookkeeping).
var ModelFiles = map[string]bool{}

func Load(verifRoot string, m Module, models []string, extraPkgs []string) (*Program, error) {
	ov, err := BuildOverlay(verifRoot, m, models)
	if err == nil {
		for _, f := range ov.Models {
			ModelFiles[f] = true
		}
	}
	if err != nil {
		return nil, err
	}
	overlay := map[string][]byte{}
	for v, r := range ov.Replace {
		b, err := os.ReadFile(r)
		if err != nil {
			return nil, err
		}
		overlay[v] = b
	}
	cfg := &packages.Config{Mode: packages.LoadAllSyntax, Dir: m.Dir, Overlay: overlay, Env: ModEnv(m.Dir)}
	// only the packages the caller needs are loaded (harness files of other packages stay in the overlay
	// but are not type-checked: some of them need library models that this load may not use)
	pats := append([]string{}, extraPkgs...)
	if len(pats) == 0 {
		pats = append(pats, ov.Pkgs...)
	}
	if len(pats) == 0 {
		return nil, fmt.Errorf("no harness packages for module %s", m.Key)
	}
	pkgs, err := packages.Load(cfg, pats...)
	if err != nil {
		return nil, err
	}
	var errs []string
	packages.Visit(pkgs, nil, func(p *packages.Package) {
		for _, e := range p.Errors {
			errs = append(errs, p.PkgPath+": "+e.Error())
		}
	})
	if len(errs) > 0 {
		if len(errs) > 25 {
			errs = errs[:25]
		}
		return nil, fmt.Errorf("harness/model does not type-check against the current tree:\n%s", strings.Join(errs, "\n"))
	}
	prog, _ := ssautil.AllPackages(pkgs, ssa.InstantiateGenerics)
	prog.Build()
	return &Program{Prog: prog, Pkgs: pkgs, Module: m, Ov: ov}, nil
}

func (p *Program) Harness(pkgPath, name string) (*ssa.Function, error) {
	for _, sp := range p.Prog.AllPackages() {
		if sp.Pkg.Path() == pkgPath {
			if f := sp.Func(name); f != nil {
				return f, nil
			}
			return nil, fmt.Errorf("no function %s in %s", name, pkgPath)
		}
	}
	return nil, fmt.Errorf("package %s not loaded", pkgPath)
}

var _ sync.Map

// VERIF_REPO (debug / mutant evaluation only): analyse a scratch COPY of the repository instead of /repo.
// The registered commands never set it; `check` refuses to write evidence when it is set.
func init() {
	if r := os.Getenv("VERIF_REPO"); r != "" {
		for k, m := range Modules {
			m.Dir = r + strings.TrimPrefix(m.Dir, "/repo")
			Modules[k] = m
		}
	}
}

// SolverArgvFor exposes the solver command line (used by the solver-diff step).
func SolverArgvFor(name string, timeoutMs int) []string {
	switch name {
	case "z3", "z3-new":
		return []string{name, "-in", fmt.Sprintf("-t:%d", timeoutMs)}
	case "cvc5":
		return []string{"cvc5", "--incremental", "--lang=smt2", fmt.Sprintf("--tlimit-per=%d", timeoutMs)}
	}
	return []string{name}
}
