package sym

import (
	"fmt"
	"go/token"
	"go/types"

	"golang.org/x/tools/go/ssa"
)

// vchan is a Go channel. Readiness is always concrete; payloads may be symbolic.
type vchan struct {
	id     int
	cap    int
	buf    []value
	closed bool
	elem   types.Type
	// unbuffered rendezvous (scheduler mode): senders parked with their value
	sendq []*sendWait
	recvq []*task
	timer *vtimer // non-nil for a timer's channel
	sendx, recvx int // buffer-slot counters (race detection)
}

type sendWait struct {
	t    *task
	v    value
	done bool     // value was taken by a receiver (or moved into the buffer)
	dead bool     // registration withdrawn (its select completed through another case)
	sel  *selWait // non-nil when registered by a select's send case
	idx  int      // case index within that select
}

// selWait is the state of a task parked in a select.
type selWait struct {
	chosen int // index of the send case completed by a receiver while parked, -1 if none
}

type spawnedCall struct {
	fn    value
	args  []value
	pos   token.Pos
	done  bool
	instr *ssa.Go
}

// spawn handles a `go` statement.
func (i *interpreter) spawn(fr *frame, instr *ssa.Go, fn value, args []value) {
	if i.sched != nil {
		i.sched.spawn(fr, instr, fn, args)
		return
	}
	i.spawned = append(i.spawned, &spawnedCall{fn: fn, args: args, pos: instr.Pos(), instr: instr})
}

func (i *interpreter) wouldBlock(what string) *pathAbort {
	site := ""
	if i.curFrame != nil {
		site = i.curFrame.site()
	}
	return &pathAbort{kind: abDeadlock, msg: what + " would block forever at " + site}
}

func (i *interpreter) chanSend(ch *vchan, v value) {
	if i.sched != nil {
		i.sched.send(ch, v)
		return
	}
	if ch == nil {
		panic(i.wouldBlock("send on nil channel"))
	}
	if ch.closed {
		panic(i.runtimeError("send on closed channel"))
	}
	if len(ch.buf) < ch.cap {
		ch.buf = append(ch.buf, copyVal(v))
		return
	}
	panic(i.wouldBlock("channel send"))
}

func (i *interpreter) chanRecv(ch *vchan, elem types.Type, commaOk bool) value {
	var v value
	var ok bool
	if i.sched != nil {
		v, ok = i.sched.recv(ch)
	} else {
		if ch == nil {
			panic(i.wouldBlock("receive from nil channel"))
		}
		switch {
		case len(ch.buf) > 0:
			v, ok = ch.buf[0], true
			ch.buf = ch.buf[1:]
		case ch.closed:
		default:
			panic(i.wouldBlock("channel receive"))
		}
	}
	if !ok {
		v = zero(elem)
	}
	if commaOk {
		return tuple{v, ok}
	}
	return v
}

func (i *interpreter) chanClose(ch *vchan) {
	if ch == nil {
		panic(i.runtimeError("close of nil channel"))
	}
	if ch.closed {
		panic(i.runtimeError("close of closed channel"))
	}
	ch.closed = true
	i.hbRelease(i.curTask, chanClose{ch})
	if i.sched != nil {
		i.sched.closed(ch)
	}
}

// recvReady / sendReady: can the operation complete right now without parking?
func (i *interpreter) recvReady(ch *vchan) bool {
	if ch == nil {
		return false
	}
	if len(ch.buf) > 0 || ch.closed {
		return true
	}
	for _, s := range ch.sendq {
		if !s.done && !s.dead && (s.sel == nil || s.sel.chosen < 0) {
			return true
		}
	}
	return false
}

func (i *interpreter) sendReady(ch *vchan) bool {
	if ch == nil {
		return false
	}
	if ch.closed {
		return true // will panic, as in Go
	}
	if len(ch.buf) < ch.cap {
		return true
	}
	return len(ch.recvq) > 0
}

func (i *interpreter) selectOp(fr *frame, instr *ssa.Select) value {
	if i.sched != nil {
		i.sched.yield("select")
	}
	for {
		var ready []int
		for k, st := range instr.States {
			ch := fr.get(st.Chan).(*vchan)
			if st.Dir == types.RecvOnly {
				if i.recvReady(ch) {
					ready = append(ready, k)
				}
			} else if i.sendReady(ch) {
				ready = append(ready, k)
			}
		}
		chosen := -1
		switch {
		case len(ready) == 1:
			chosen = ready[0]
		case len(ready) > 1:
			chosen = ready[i.choose(len(ready))]
			if i.sched != nil {
				i.schedTrace = append(i.schedTrace, fmt.Sprintf("task %d select case %d at %s", i.curTask.id, chosen, i.pos(instr.Pos())))
			}
		case !instr.Blocking:
			chosen = -1
		default:
			if i.sched == nil {
				panic(i.wouldBlock("select"))
			}
			var chans []*vchan
			sel := &selWait{chosen: -1}
			var regs []*sendWait
			for k, st := range instr.States {
				ch := fr.get(st.Chan).(*vchan)
				chans = append(chans, ch)
				if st.Dir != types.RecvOnly && ch != nil {
					// as the Go runtime does, a parked select's send case sits in the channel's send queue:
					// a receiver completes it directly, without the sender having to be scheduled
					w := &sendWait{t: i.curTask, v: copyVal(fr.get(st.Send)), sel: sel, idx: k}
					ch.sendq = append(ch.sendq, w)
					regs = append(regs, w)
				}
			}
			i.sched.parkSelectSel(chans, instr, sel)
			for _, w := range regs {
				if !w.done {
					w.dead = true
				}
			}
			if sel.chosen >= 0 {
				r := tuple{sel.chosen, false}
				for _, st := range instr.States {
					if st.Dir == types.RecvOnly {
						r = append(r, zero(st.Chan.Type().Underlying().(*types.Chan).Elem()))
					}
				}
				return r
			}
			continue

		}
		r := tuple{chosen, false}
		for k, st := range instr.States {
			if st.Dir == types.RecvOnly {
				var v value
				elem := st.Chan.Type().Underlying().(*types.Chan).Elem()
				if k == chosen {
					ch := fr.get(st.Chan).(*vchan)
					var ok bool
					if i.sched != nil {
						v, ok = i.sched.recvNow(ch)
					} else if len(ch.buf) > 0 {
						v, ok = ch.buf[0], true
						ch.buf = ch.buf[1:]
					}
					if !ok {
						v = zero(elem)
					}
					r[1] = ok
				} else {
					v = zero(elem)
				}
				r = append(r, v)
			} else if k == chosen {
				ch := fr.get(st.Chan).(*vchan)
				if ch.closed {
					panic(i.runtimeError("send on closed channel"))
				}
				if i.sched != nil {
					i.sched.sendNow(ch, fr.get(st.Send))
				} else {
					ch.buf = append(ch.buf, copyVal(fr.get(st.Send)))
				}
			}
		}
		return r
	}
}
