package sym

import (
	"regexp"
	"fmt"
	"go/token"
	"go/types"

	"golang.org/x/tools/go/ssa"

	"verif/engine/smt"
)

// Minimal reflect emulation: reflect.Type values are iface{t: rtypeType, v: rtype{T}};
// a handful of Type methods and reflect.DeepEqual are provided natively.

var reflectFakePkg = types.NewPackage("reflect", "reflect")

var rtypeType = types.NewNamed(types.NewTypeName(token.NoPos, reflectFakePkg, "rtype", nil), types.NewStruct(nil, nil), nil)

func makeReflectType(t types.Type) value { return iface{t: rtypeType, v: rtype{t}} }

func (i *interpreter) rtypeMethod(name string) *nativeFn {
	return &nativeFn{name: "reflect.rtype." + name, fn: func(i *interpreter, args []value) value {
		rt := args[0].(rtype).t
		switch name {
		case "String":
			return rt.String()
		case "Name":
			if n, ok := rt.(*types.Named); ok {
				return n.Obj().Name()
			}
			if b, ok := rt.(*types.Basic); ok {
				return b.Name()
			}
			return ""
		case "Size":
			return uintptr(i.ex.sizes.Sizeof(rt))
		case "Bits":
			return int(i.ex.sizes.Sizeof(rt)) * 8
		case "Kind":
			return uint(reflectKind(rt))
		case "Elem":
			switch u := rt.Underlying().(type) {
			case *types.Pointer:
				return makeReflectType(u.Elem())
			case *types.Slice:
				return makeReflectType(u.Elem())
			case *types.Array:
				return makeReflectType(u.Elem())
			case *types.Map:
				return makeReflectType(u.Elem())
			case *types.Chan:
				return makeReflectType(u.Elem())
			}
		case "Comparable":
			return types.Comparable(rt)
		case "PkgPath":
			if n, ok := rt.(*types.Named); ok && n.Obj().Pkg() != nil {
				return n.Obj().Pkg().Path()
			}
			return ""
		case "NumField":
			return rt.Underlying().(*types.Struct).NumFields()
		}
		panic(i.unsupported("reflect.Type." + name))
	}}
}

func reflectKind(t types.Type) int {
	switch t := t.Underlying().(type) {
	case *types.Basic:
		switch t.Kind() {
		case types.Bool:
			return 1
		case types.Int:
			return 2
		case types.Int8:
			return 3
		case types.Int16:
			return 4
		case types.Int32:
			return 5
		case types.Int64:
			return 6
		case types.Uint:
			return 7
		case types.Uint8:
			return 8
		case types.Uint16:
			return 9
		case types.Uint32:
			return 10
		case types.Uint64:
			return 11
		case types.Uintptr:
			return 12
		case types.Float32:
			return 13
		case types.Float64:
			return 14
		case types.Complex64:
			return 15
		case types.Complex128:
			return 16
		case types.String:
			return 24
		case types.UnsafePointer:
			return 26
		}
	case *types.Array:
		return 17
	case *types.Chan:
		return 18
	case *types.Signature:
		return 19
	case *types.Interface:
		return 20
	case *types.Map:
		return 21
	case *types.Pointer:
		return 22
	case *types.Slice:
		return 23
	case *types.Struct:
		return 25
	}
	return 0
}

type dePair struct{ a, b *value }

// deepEqual implements reflect.DeepEqual over interpreter values.
func (i *interpreter) deepEqual(fr *frame, t types.Type, x, y value, seen map[dePair]bool) bool {
	switch u := t.Underlying().(type) {
	case *types.Basic:
		if u.Kind() == types.UnsafePointer {
			return x.(unsafePtr).p == y.(unsafePtr).p
		}
		return i.truth(fr, i.equalsV(t, x, y))
	case *types.Pointer:
		px, py := x.(*value), y.(*value)
		if px == py {
			return true
		}
		if px == nil || py == nil {
			return false
		}
		if seen[dePair{px, py}] {
			return true
		}
		seen[dePair{px, py}] = true
		return i.deepEqual(fr, u.Elem(), *px, *py, seen)
	case *types.Struct:
		xs, ys := x.(structure), y.(structure)
		for k := 0; k < u.NumFields(); k++ {
			if !i.deepEqual(fr, u.Field(k).Type(), xs[k], ys[k], seen) {
				return false
			}
		}
		return true
	case *types.Array:
		xa, ya := x.(array), y.(array)
		for k := range xa {
			if !i.deepEqual(fr, u.Elem(), xa[k], ya[k], seen) {
				return false
			}
		}
		return true
	case *types.Slice:
		xs, ys := x.([]value), y.([]value)
		if (xs == nil) != (ys == nil) || len(xs) != len(ys) {
			return false
		}
		for k := range xs {
			if !i.deepEqual(fr, u.Elem(), xs[k], ys[k], seen) {
				return false
			}
		}
		return true
	case *types.Interface:
		xi, yi := x.(iface), y.(iface)
		if xi.t == nil || yi.t == nil {
			return xi.t == nil && yi.t == nil
		}
		if !types.Identical(xi.t, yi.t) {
			return false
		}
		return i.deepEqual(fr, xi.t, xi.v, yi.v, seen)
	case *types.Map:
		xm, ym := x.(*omap), y.(*omap)
		if (xm == nil) != (ym == nil) || xm.length() != ym.length() {
			return false
		}
		if xm == nil {
			return true
		}
		for s := range xm.keys {
			if !xm.live[s] {
				continue
			}
			v2, ok := i.mapLookup(ym, xm.keys[s])
			if !ok || !i.deepEqual(fr, u.Elem(), xm.vals[s], v2, seen) {
				return false
			}
		}
		return true
	case *types.Signature:
		xf, xok := x.(*ssa.Function)
		yf, yok := y.(*ssa.Function)
		return xok && yok && xf == nil && yf == nil
	case *types.Chan:
		return x.(*vchan) == y.(*vchan)
	}
	panic(i.unsupported(fmt.Sprintf("reflect.DeepEqual on %v", t)))
}

func init() {
	stdIntrinsics["reflect.TypeOf"] = func(fr *frame, args []value) value {
		itf := args[0].(iface)
		if itf.t == nil {
			return iface{}
		}
		return makeReflectType(itf.t)
	}
	stdIntrinsics["internal/reflectlite.TypeOf"] = stdIntrinsics["reflect.TypeOf"]
	stdIntrinsics["reflect.DeepEqual"] = func(fr *frame, args []value) value {
		x, y := args[0].(iface), args[1].(iface)
		if x.t == nil || y.t == nil {
			return x.t == nil && y.t == nil
		}
		if !types.Identical(x.t, y.t) {
			return false
		}
		return fr.i.deepEqual(fr, x.t, x.v, y.v, map[dePair]bool{})
	}
}

// otel attribute slices are stored as arrays built through reflection; build them directly.
func init() {
	mk := func(elem types.Type) intrinsic {
		return func(fr *frame, args []value) value {
			src := args[0].([]value)
			a := make(array, len(src))
			for k := range src {
				a[k] = copyVal(src[k])
			}
			return iface{t: types.NewArray(elem, int64(len(src))), v: a}
		}
	}
	const p = "go.opentelemetry.io/otel/internal/attribute."
	stdIntrinsics[p+"StringSliceValue"] = mk(types.Typ[types.String])
	stdIntrinsics[p+"BoolSliceValue"] = mk(types.Typ[types.Bool])
	stdIntrinsics[p+"Int64SliceValue"] = mk(types.Typ[types.Int64])
	stdIntrinsics[p+"Float64SliceValue"] = mk(types.Typ[types.Float64])
	as := func(fr *frame, args []value) value {
		itf := args[0].(iface)
		a, ok := itf.v.(array)
		if !ok {
			return []value(nil)
		}
		out := make([]value, len(a))
		copy(out, a)
		return out
	}
	stdIntrinsics[p+"AsStringSlice"] = as
	stdIntrinsics[p+"AsBoolSlice"] = as
	stdIntrinsics[p+"AsInt64Slice"] = as
	stdIntrinsics[p+"AsFloat64Slice"] = as
}

// Cipher contract: feistel.VerifE is an uninterpreted, length-preserving injection
// (per length n and position i a function E_n_i of all input bytes, with instantiated
// inverse axioms D_n_i(E(x)) = x_i).
func init() {
	stdIntrinsics["github.com/cyrildever/feistel.VerifE"] = func(fr *frame, args []value) value {
		i := fr.i
		in := strBytes(args[0])
		n := len(in)
		if n == 0 {
			return ""
		}
		i.noteStub("cipher contract: feistel Encrypt = uninterpreted length-preserving injection E with D(E(x)) = x")
		ts := make([]*smt.Term, n)
		for k := range in {
			ts[k] = i.termOf(in[k])
		}
		out := make([]*smt.Term, n)
		res := make([]value, n)
		for k := 0; k < n; k++ {
			out[k] = i.ctx.Apply(fmt.Sprintf("E_%d_%d", n, k), smt.BV(8), ts...)
			res[k] = out[k]
		}
		for k := 0; k < n; k++ {
			i.assumeInternal(i.ctx.Eq(i.ctx.Apply(fmt.Sprintf("D_%d_%d", n, k), smt.BV(8), out...), ts[k]))
		}
		// the point of E this path used goes into the replay vector (kind "uf": input bytes then output bytes), so
		// that the compiled model can reproduce a counterexample that depends on the VALUE the solver chose for E(x)
		i.nondet = append(i.nondet, NondetRec{Name: "E", Kind: "uf", Len: n, Terms: append(append([]*smt.Term{}, ts...), out...)})
		return mkStr(res)
	}
}

// regexp: compiled natively (pattern compilation/matching is never the subject);
// the interpreted *regexp.Regexp is an empty shell keyed to the native object.
func init() {
	compile := func(fr *frame, expr value, must bool) value {
		i := fr.i
		e, ok := expr.(string)
		if !ok {
			panic(i.unsupported("regexp.Compile of symbolic pattern"))
		}
		re, err := regexp.Compile(e)
		if err != nil {
			if must {
				panic(&targetPanic{v: iface{t: i.runtimeErrorString, v: "regexp: Compile: " + err.Error()}, site: fr.site()})
			}
			return tuple{(*value)(nil), i.newErrorString(err.Error())}
		}
		cell := zero(i.namedType("regexp", "Regexp"))
		p := &cell
		if i.natives == nil {
			i.natives = map[*value]interface{}{}
		}
		i.natives[p] = re
		i.noteStub("regexp compiled and matched natively on concrete strings")
		if must {
			return p
		}
		return tuple{p, iface{}}
	}
	stdIntrinsics["regexp.MustCompile"] = func(fr *frame, args []value) value { return compile(fr, args[0], true) }
	stdIntrinsics["regexp.Compile"] = func(fr *frame, args []value) value { return compile(fr, args[0], false) }
	stdIntrinsics["(*regexp.Regexp).MatchString"] = func(fr *frame, args []value) value {
		re, _ := fr.i.natives[args[0].(*value)].(*regexp.Regexp)
		s, ok := args[1].(string)
		if re == nil || !ok {
			panic(fr.i.unsupported("regexp match on symbolic string or unknown regexp"))
		}
		return re.MatchString(s)
	}
	stdIntrinsics["(*regexp.Regexp).String"] = func(fr *frame, args []value) value {
		re, _ := fr.i.natives[args[0].(*value)].(*regexp.Regexp)
		if re == nil {
			return ""
		}
		return re.String()
	}
}

var _ = smt.Bool
