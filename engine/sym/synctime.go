package sym

import (
	"fmt"
	"go/types"

	"golang.org/x/tools/go/ssa"

	"verif/engine/smt"
)

// Intrinsics for package sync, sync/atomic.Value, time (virtual clock) and the
// rt scheduling helpers. State lives in the real struct fields of the
// interpreted values, so copies/zero values behave as in Go.

const clockBase = int64(1_700_000_000) * 1_000_000_000

func structOf(t types.Type) *types.Struct {
	if p, ok := t.Underlying().(*types.Pointer); ok {
		t = p.Elem()
	}
	s, _ := t.Underlying().(*types.Struct)
	return s
}

// fieldCell returns the address of the (possibly nested) field path of *p whose static type is T.
func (i *interpreter) fieldCell(p *value, T types.Type, path ...string) *value {
	if p == nil {
		panic(i.nilDeref())
	}
	cur := p
	st := structOf(T)
	for _, name := range path {
		if st == nil {
			panic(fmt.Sprintf("fieldCell: %v is not a struct at %s", T, name))
		}
		found := false
		for k := 0; k < st.NumFields(); k++ {
			if st.Field(k).Name() == name {
				cur = &(*cur).(structure)[k]
				st = structOf(st.Field(k).Type())
				found = true
				break
			}
		}
		if !found {
			panic(fmt.Sprintf("fieldCell: no field %s", name))
		}
	}
	return cur
}

func recvType(fr *frame) types.Type { return fr.fn.Signature.Recv().Type() }

func (i *interpreter) blockUntil(cond func() bool, what string) {
	if cond() {
		return
	}
	if i.sched == nil {
		panic(i.wouldBlock(what))
	}
	for !cond() {
		i.sched.block(cond, what)
	}
}

func mutexLock(fr *frame, args []value) value {
	i := fr.i
	st := i.fieldCell(args[0].(*value), recvType(fr), "state")
	if modelFrame(fr.caller) && (*st).(int32) == 0 {
		*st = int32(1) // bookkeeping lock of a library model: no scheduling point, no happens-before edge
		return nil
	}
	i.syncPoint("mutex lock")
	i.blockUntil(func() bool { return (*st).(int32) == 0 }, "mutex lock")
	*st = int32(1)
	i.hbAcquire(i.curTask, st)
	return nil
}

func mutexUnlock(fr *frame, args []value) value {
	i := fr.i
	st := i.fieldCell(args[0].(*value), recvType(fr), "state")
	if (*st).(int32) == 0 {
		panic(i.runtimeError("fatal error: sync: unlock of unlocked mutex"))
	}
	if modelFrame(fr.caller) {
		*st = int32(0)
		return nil
	}
	*st = int32(0)
	i.hbRelease(i.curTask, st)
	i.syncPoint("mutex unlock")
	return nil
}

func (i *interpreter) newTimeValue(ns int64) value {
	tp := i.prog.ImportedPackage("time")
	if tp == nil {
		panic(i.unsupported("package time not loaded"))
	}
	saved, savedDepth := i.curFrame, i.depth
	v := i.call(nil, 0, tp.Func("Unix"), []value{int64(0), clockBase + ns})
	i.curFrame, i.depth = saved, savedDepth
	return v
}

func (i *interpreter) newTimer(d int64, fn value) (*value, *vtimer) {
	if i.timers == nil {
		i.timers = map[*value]*vtimer{}
	}
	i.timerSeq++
	ch := &vchan{cap: 1, id: i.nextChanID()}
	tm := &vtimer{id: i.timerSeq, ch: ch, armed: true, deadline: i.clock + d, fn: fn, seq: i.timerSeq}
	ch.timer = tm
	i.hbArmTimer(tm)
	tt := i.prog.ImportedPackage("time").Type("Timer").Type()
	cell := zero(tt)
	st := structOf(tt)
	for k := 0; k < st.NumFields(); k++ {
		switch st.Field(k).Name() {
		case "C":
			if fn == nil {
				cell.(structure)[k] = ch
			}
		case "initTimer":
			cell.(structure)[k] = true
		}
	}
	p := new(value)
	*p = cell
	i.timers[p] = tm
	i.timerList = append(i.timerList, tm)
	return p, tm
}

// fireNextTimer advances the virtual clock to the earliest armed timer and fires it.
func (i *interpreter) fireNextTimer() bool {
	var best *vtimer
	for _, t := range i.timerList {
		if t.armed && (best == nil || t.deadline < best.deadline || (t.deadline == best.deadline && t.seq < best.seq)) {
			best = t
		}
	}
	if best == nil {
		return false
	}
	i.timeAdvances++
	if i.timeAdvances > 200 && i.sched != nil {
		// only timers make progress while the harness is blocked: a hang (livelock), reported like a deadlock
		i.livelock = true
		return false
	}
	if best.deadline > i.clock {
		i.clock = best.deadline
	}
	best.armed = false
	if i.sched != nil {
		i.sched.note("virtual time -> +%dns: timer %d fires", i.clock, best.id)
	}
	if best.fn != nil {
		if i.sched == nil {
			panic(i.unsupported("AfterFunc timer without scheduler"))
		}
		i.sched.spawnFn(best.fn, best.vc)
		return true
	}
	if len(best.ch.buf) == 0 {
		best.ch.buf = append(best.ch.buf, i.newTimeValue(i.clock))
		i.hbTimerTick(best)
	}
	return true
}

func (s *scheduler) spawnFn(fn value, vc vclock) {
	t := &task{id: len(s.tasks), wake: make(chan int, 1)}
	s.tasks = append(s.tasks, t)
	if s.i.race != nil {
		s.i.hbFork(vc, t)
	}
	s.wg.Add(1)
	i := s.i
	go func() {
		defer s.wg.Done()
		if cmd := <-t.wake; cmd == 2 {
			return
		}
		defer func() {
			r := recover()
			if pa, ok := r.(*pathAbort); ok && pa.kind == abKilled {
				return
			}
			t.done = true
			if r != nil {
				s.fatal = r
				s.handToMain()
				return
			}
			s.taskExit(t)
		}()
		i.curFrame, i.depth = nil, 0
		i.call(nil, 0, fn, nil)
	}()
}

func durationArg(i *interpreter, v value) int64 { return i.concInt(v) }

// fallThrough is returned by an intrinsic that declines: the real body is interpreted.
type fallThrough struct{}

// Symbolic instants. The real time.Time arithmetic divides and multiplies by 1e9, which bit-blasting
// solvers do not finish on 64-bit operands; a time.Time built by time.Unix(0, n) from a symbolic n is
// therefore kept as the tagged structure {wall: symTimeTag, ext: n, loc} and the methods below are
// summarised on n exactly as documented: Sub saturates at +-(2^63-1) (here: min/max Duration), Add and
// UnixNano wrap modulo 2^64, comparisons compare n. CONTRACT: comparisons after an Add that wrapped
// differ from the real (wider) Time; harness domains keep timestamps <= 2^63-1 as the properties do.
const symTimeTag = uint64(0x7A7A7A7A00000001)

func isSymTime(v value) (structure, bool) {
	st, ok := v.(structure)
	if !ok || len(st) != 3 {
		return nil, false
	}
	w, ok := st[0].(uint64)
	return st, ok && w == symTimeTag
}

func (i *interpreter) symTimeOf(fr *frame, v value) (*smt.Term, bool) {
	if st, ok := isSymTime(v); ok {
		return i.termOf(st[1]), true
	}
	return nil, false
}

// nanosOf gives the ns-since-epoch of any Time value (running the real UnixNano for concrete ones).
func (i *interpreter) nanosOf(fr *frame, v value) *smt.Term {
	if t, ok := i.symTimeOf(fr, v); ok {
		return t
	}
	tp := i.prog.ImportedPackage("time")
	m := i.prog.LookupMethod(tp.Type("Time").Type(), tp.Pkg, "UnixNano")
	r := i.call(fr, 0, m, []value{v})
	return i.termOf(r)
}

func mkSymTime(n value, loc value) value { return structure{symTimeTag, n, loc} }

func init() {
	m := stdIntrinsics
	m["time.Unix"] = func(fr *frame, args []value) value {
		if _, sym := args[1].(*smt.Term); !sym {
			if _, sym2 := args[0].(*smt.Term); !sym2 {
				return fallThrough{}
			}
		}
		if s, ok := args[0].(int64); !ok || s != 0 {
			panic(fr.i.unsupported("time.Unix with symbolic or non-zero seconds and symbolic nanoseconds"))
		}
		fr.i.noteStub("symbolic instants: time.Unix(0,n)/Sub/Add/UnixNano/compare summarised on n (Sub saturates, Add/UnixNano wrap)")
		return mkSymTime(args[1], (*value)(nil))
	}
	same := func(fr *frame, args []value) value {
		if _, ok := isSymTime(args[0]); ok {
			return args[0]
		}
		return fallThrough{}
	}
	m["(time.Time).UTC"] = same
	m["(time.Time).Local"] = same
	m["(time.Time).In"] = same
	m["(time.Time).Round"] = func(fr *frame, args []value) value {
		if _, ok := isSymTime(args[0]); ok {
			panic(fr.i.unsupported("Time.Round on symbolic instant"))
		}
		return fallThrough{}
	}
	m["(time.Time).UnixNano"] = func(fr *frame, args []value) value {
		if st, ok := isSymTime(args[0]); ok {
			return st[1]
		}
		return fallThrough{}
	}
	m["(time.Time).IsZero"] = func(fr *frame, args []value) value {
		if _, ok := isSymTime(args[0]); ok {
			return false // year 1 is not representable as int64 nanoseconds since 1970
		}
		return fallThrough{}
	}
	m["(time.Time).Add"] = func(fr *frame, args []value) value {
		st, ok := isSymTime(args[0])
		_, dsym := args[1].(*smt.Term)
		if !ok && !dsym {
			return fallThrough{}
		}
		i := fr.i
		var loc value = (*value)(nil)
		if ok {
			loc = st[2]
		}
		n := i.nanosOf(fr, args[0])
		return mkSymTime(lower(types.Int64, i.ctx.BVBin(smt.OpAdd, n, i.termOf(args[1]))), loc)
	}
	m["(time.Time).Sub"] = func(fr *frame, args []value) value {
		_, ok1 := isSymTime(args[0])
		_, ok2 := isSymTime(args[1])
		if !ok1 && !ok2 {
			return fallThrough{}
		}
		i := fr.i
		c := i.ctx
		a, b := i.nanosOf(fr, args[0]), i.nanosOf(fr, args[1])
		d := c.BVBin(smt.OpSub, a, b)
		zero := c.BVC(0, 64)
		aNeg, bNeg, dNeg := c.BVCmp(smt.OpSLt, a, zero), c.BVCmp(smt.OpSLt, b, zero), c.BVCmp(smt.OpSLt, d, zero)
		over := c.AndN(c.Not(aNeg), bNeg, dNeg)   // a >= 0, b < 0, wrapped negative => +inf
		under := c.AndN(aNeg, c.Not(bNeg), c.Not(dNeg)) // a < 0, b >= 0, wrapped non-negative => -inf
		r := c.Ite(over, c.BVC(uint64(1<<63-1), 64), c.Ite(under, c.BVC(uint64(1)<<63, 64), d))
		return lower(types.Int64, r)
	}
	cmp := func(op string) intrinsic {
		return func(fr *frame, args []value) value {
			_, ok1 := isSymTime(args[0])
			_, ok2 := isSymTime(args[1])
			if !ok1 && !ok2 {
				return fallThrough{}
			}
			i := fr.i
			a, b := i.nanosOf(fr, args[0]), i.nanosOf(fr, args[1])
			switch op {
			case "Before":
				return lowerBool(i.ctx.BVCmp(smt.OpSLt, a, b))
			case "After":
				return lowerBool(i.ctx.BVCmp(smt.OpSLt, b, a))
			}
			return lowerBool(i.ctx.Eq(a, b))
		}
	}
	m["(time.Time).Before"] = cmp("Before")
	m["(time.Time).After"] = cmp("After")
	m["(time.Time).Equal"] = cmp("Equal")
}

func init() {
	m := stdIntrinsics
	m["(*sync.Mutex).Lock"] = mutexLock
	m["(*sync.Mutex).Unlock"] = mutexUnlock
	m["(*sync.Mutex).TryLock"] = func(fr *frame, args []value) value {
		st := fr.i.fieldCell(args[0].(*value), recvType(fr), "state")
		if (*st).(int32) != 0 {
			return false
		}
		*st = int32(1)
		fr.i.hbAcquire(fr.i.curTask, st)
		return true
	}
	// RWMutex: writer flag in w.state, reader count in readerCount.v
	m["(*sync.RWMutex).Lock"] = func(fr *frame, args []value) value {
		i := fr.i
		p := args[0].(*value)
		w := i.fieldCell(p, recvType(fr), "w", "state")
		rc := i.fieldCell(p, recvType(fr), "readerCount", "v")
		i.syncPoint("rwmutex lock")
		i.blockUntil(func() bool { return (*w).(int32) == 0 && (*rc).(int32) == 0 }, "rwmutex lock")
		*w = int32(1)
		i.hbAcquire(i.curTask, w)
		i.hbAcquire(i.curTask, rc)
		return nil
	}
	m["(*sync.RWMutex).Unlock"] = func(fr *frame, args []value) value {
		i := fr.i
		w := i.fieldCell(args[0].(*value), recvType(fr), "w", "state")
		if (*w).(int32) == 0 {
			panic(i.runtimeError("fatal error: sync: Unlock of unlocked RWMutex"))
		}
		*w = int32(0)
		i.hbRelease(i.curTask, w)
		i.syncPoint("rwmutex unlock")
		return nil
	}
	m["(*sync.RWMutex).RLock"] = func(fr *frame, args []value) value {
		i := fr.i
		p := args[0].(*value)
		w := i.fieldCell(p, recvType(fr), "w", "state")
		rc := i.fieldCell(p, recvType(fr), "readerCount", "v")
		i.syncPoint("rwmutex rlock")
		i.blockUntil(func() bool { return (*w).(int32) == 0 }, "rwmutex rlock")
		*rc = (*rc).(int32) + 1
		i.hbAcquire(i.curTask, w)
		return nil
	}
	m["(*sync.RWMutex).RUnlock"] = func(fr *frame, args []value) value {
		i := fr.i
		rc := i.fieldCell(args[0].(*value), recvType(fr), "readerCount", "v")
		if (*rc).(int32) == 0 {
			panic(i.runtimeError("fatal error: sync: RUnlock of unlocked RWMutex"))
		}
		*rc = (*rc).(int32) - 1
		i.hbRelease(i.curTask, rc)
		i.syncPoint("rwmutex runlock")
		return nil
	}
	// WaitGroup: counter kept in state.v
	m["(*sync.WaitGroup).Add"] = func(fr *frame, args []value) value {
		i := fr.i
		c := i.fieldCell(args[0].(*value), recvType(fr), "state", "v")
		n := int64((*c).(uint64)) + i.concInt(args[1])
		if n < 0 {
			panic(i.runtimeError("sync: negative WaitGroup counter"))
		}
		*c = uint64(n)
		if i.concInt(args[1]) < 0 {
			i.hbRelease(i.curTask, c)
		}
		i.syncPoint("waitgroup add")
		return nil
	}
	m["(*sync.WaitGroup).Wait"] = func(fr *frame, args []value) value {
		i := fr.i
		c := i.fieldCell(args[0].(*value), recvType(fr), "state", "v")
		i.syncPoint("waitgroup wait")
		i.blockUntil(func() bool { return (*c).(uint64) == 0 }, "waitgroup wait")
		i.hbAcquire(i.curTask, c)
		return nil
	}
	// sync.Map: association list kept in the `dirty` field
	smap := func(fr *frame, p *value) *omap {
		c := fr.i.fieldCell(p, recvType(fr), "dirty")
		fr.i.hbAcqRel(fr.i.curTask, c)
		mm, _ := (*c).(*omap)
		if mm == nil {
			mm = makeMap(types.NewInterfaceType(nil, nil))
			*c = mm
		}
		return mm
	}
	m["(*sync.Map).Load"] = func(fr *frame, args []value) value {
		fr.i.syncPoint("sync.Map Load")
		v, ok := fr.i.mapLookup(smap(fr, args[0].(*value)), args[1])
		if !ok {
			return tuple{iface{}, false}
		}
		return tuple{v, true}
	}
	m["(*sync.Map).Store"] = func(fr *frame, args []value) value {
		fr.i.syncPoint("sync.Map Store")
		fr.i.mapInsert(smap(fr, args[0].(*value)), args[1], args[2])
		return nil
	}
	m["(*sync.Map).LoadOrStore"] = func(fr *frame, args []value) value {
		fr.i.syncPoint("sync.Map LoadOrStore")
		mm := smap(fr, args[0].(*value))
		if v, ok := fr.i.mapLookup(mm, args[1]); ok {
			return tuple{v, true}
		}
		fr.i.mapInsert(mm, args[1], args[2])
		return tuple{args[2], false}
	}
	m["(*sync.Map).LoadAndDelete"] = func(fr *frame, args []value) value {
		fr.i.syncPoint("sync.Map LoadAndDelete")
		mm := smap(fr, args[0].(*value))
		v, ok := fr.i.mapLookup(mm, args[1])
		if !ok {
			return tuple{iface{}, false}
		}
		fr.i.mapDelete(mm, args[1])
		return tuple{v, true}
	}
	m["(*sync.Map).Delete"] = func(fr *frame, args []value) value {
		fr.i.syncPoint("sync.Map Delete")
		fr.i.mapDelete(smap(fr, args[0].(*value)), args[1])
		return nil
	}
	m["(*sync.Map).Range"] = func(fr *frame, args []value) value {
		i := fr.i
		mm := smap(fr, args[0].(*value))
		n := len(mm.keys)
		for s := 0; s < n; s++ {
			if !mm.live[s] {
				continue
			}
			r := i.call(fr, 0, args[1], []value{mm.keys[s], mm.vals[s]})
			if !i.truth(fr, r) {
				break
			}
		}
		return nil
	}
	// atomic.Value: the stored interface is kept in field v
	m["(*sync/atomic.Value).Load"] = func(fr *frame, args []value) value {
		c := fr.i.fieldCell(args[0].(*value), recvType(fr), "v")
		fr.i.hbAcqRel(fr.i.curTask, c)
		return *c
	}
	m["(*sync/atomic.Value).Store"] = func(fr *frame, args []value) value {
		if args[1].(iface).t == nil {
			panic(fr.i.runtimeError("sync/atomic: store of nil value into Value"))
		}
		c := fr.i.fieldCell(args[0].(*value), recvType(fr), "v")
		fr.i.hbAcqRel(fr.i.curTask, c)
		*c = args[1]
		return nil
	}
	m["(*sync/atomic.Value).Swap"] = func(fr *frame, args []value) value {
		c := fr.i.fieldCell(args[0].(*value), recvType(fr), "v")
		fr.i.hbAcqRel(fr.i.curTask, c)
		old := *c
		*c = args[1]
		return old
	}
	m["(*sync/atomic.Value).CompareAndSwap"] = func(fr *frame, args []value) value {
		i := fr.i
		c := i.fieldCell(args[0].(*value), recvType(fr), "v")
		i.hbAcqRel(i.curTask, c)
		old := args[1].(iface)
		cur := (*c).(iface)
		eq := false
		if cur.t == nil || old.t == nil {
			eq = cur.t == nil && old.t == nil
		} else {
			eq = i.truth(fr, i.equalsV(types.NewInterfaceType(nil, nil), cur, old))
		}
		if eq {
			*c = args[2]
		}
		return eq
	}

	// ---- time ----
	m["time.Now"] = func(fr *frame, args []value) value { return fr.i.newTimeValue(fr.i.clock) }
	m["time.now"] = func(fr *frame, args []value) value {
		ns := clockBase + fr.i.clock
		return tuple{ns / 1e9, int32(ns % 1e9), ns}
	}
	m["time.runtimeNano"] = func(fr *frame, args []value) value { return clockBase + fr.i.clock }
	m["time.NewTimer"] = func(fr *frame, args []value) value {
		p, _ := fr.i.newTimer(durationArg(fr.i, args[0]), nil)
		return p
	}
	m["time.After"] = func(fr *frame, args []value) value {
		_, tm := fr.i.newTimer(durationArg(fr.i, args[0]), nil)
		return tm.ch
	}
	m["time.AfterFunc"] = func(fr *frame, args []value) value {
		p, _ := fr.i.newTimer(durationArg(fr.i, args[0]), args[1])
		return p
	}
	m["(*time.Timer).Stop"] = func(fr *frame, args []value) value {
		i := fr.i
		tm := i.timers[args[0].(*value)]
		if tm == nil {
			panic(i.runtimeError("time: Stop called on uninitialized Timer"))
		}
		i.syncPoint("timer stop")
		was := tm.armed
		tm.armed = false
		// Go 1.23 timer channels: Stop discards an undelivered tick and then reports true
		if len(tm.ch.buf) > 0 {
			tm.ch.buf = nil
			tm.ch.recvx = tm.ch.sendx
			was = true
		}
		return was
	}
	m["(*time.Timer).Reset"] = func(fr *frame, args []value) value {
		i := fr.i
		tm := i.timers[args[0].(*value)]
		if tm == nil {
			panic(i.runtimeError("time: Reset called on uninitialized Timer"))
		}
		i.syncPoint("timer reset")
		was := tm.armed
		if len(tm.ch.buf) > 0 {
			tm.ch.buf = nil
			tm.ch.recvx = tm.ch.sendx
			was = true
		}
		tm.armed = true
		i.hbArmTimer(tm)
		tm.deadline = i.clock + durationArg(i, args[1])
		i.timerSeq++
		tm.seq = i.timerSeq
		return was
	}
	m["time.Sleep"] = func(fr *frame, args []value) value {
		i := fr.i
		d := durationArg(i, args[0])
		if d <= 0 {
			i.syncPoint("sleep")
			return nil
		}
		_, tm := i.newTimer(d, nil)
		i.blockUntil(func() bool { return !tm.armed }, "sleep")
		return nil
	}

	// ---- rt scheduling helpers ----
	rtIntrinsics["Quiesce"] = func(fr *frame, args []value) value {
		if fr.i.sched != nil {
			fr.i.sched.quiesce()
		}
		return nil
	}
	rtIntrinsics["AdvanceTime"] = func(fr *frame, args []value) value {
		// fire the earliest armed timer (virtual clock jumps to its deadline); false if none
		return fr.i.fireNextTimer()
	}
	rtIntrinsics["NowNanos"] = func(fr *frame, args []value) value { return fr.i.clock }
	rtIntrinsics["NumTasks"] = func(fr *frame, args []value) value { return fr.i.numTasksLive() }
	stdIntrinsics["runtime.NumGoroutine"] = func(fr *frame, args []value) value { return fr.i.numTasksLive() }
}

var _ = smt.Bool
var _ *ssa.Function
