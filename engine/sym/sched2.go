package sym

import (
	"os"
	"fmt"
	"go/types"
	"sort"
	"sync"

	"golang.org/x/tools/go/ssa"
)

// Scheduler: deterministic cooperative scheduling of interpreted goroutines
// (DESIGN §2.6). Every interpreted goroutine is a real goroutine holding a baton:
// exactly one runs. Context switches happen only at synchronisation operations;
// which runnable task proceeds is a decision variable. Exploration is *delay
// bounded* (Emmi, Qadeer, Rakamaric 2011): the deterministic base scheduler is
// non-preemptive round-robin; every deviation from it (running the k-th next
// candidate instead of the first) costs k delays, and at most MaxPreempt delays
// are spent per path. All schedules within that bound are explored. Virtual time advances only
// when every task is blocked, to the earliest armed timer.

var traceSched = os.Getenv("GOSYMEX_TRACE") != ""

type task struct {
	id         int
	wake       chan int // 1 = run, 2 = kill
	done       bool
	blocked    bool
	ready      func() bool
	what       string
	isMain     bool
	quiescing  bool
	savedFrame *frame
	savedDepth int
	vc         vclock // happens-before clock (race detection)
}

type vtimer struct {
	id       int
	ch       *vchan
	armed    bool
	deadline int64
	fn       value // AfterFunc callback
	seq      int
	vc       vclock // clock of the task that armed the timer
}

type scheduler struct {
	i          *interpreter
	tasks      []*task
	cur        *task
	fatal      interface{}
	preempt    int
	maxPreempt int
	wg         sync.WaitGroup
	maxTasks   int
}

func newScheduler(i *interpreter) *scheduler {
	mp := i.ex.cfg.MaxPreempt
	if mp < 0 {
		mp = 0
	}
	return &scheduler{i: i, maxPreempt: mp, maxTasks: 24}
}

func (s *scheduler) runMain(f func()) {
	main := &task{id: 0, wake: make(chan int, 1), isMain: true}
	s.tasks = []*task{main}
	s.cur = main
	s.i.curTask = main
	f()
}

// teardown kills every parked task goroutine at the end of a path.
func (s *scheduler) teardown() {
	for _, t := range s.tasks {
		if !t.isMain && !t.done {
			t.done = true
			t.wake <- 2
		}
	}
	s.wg.Wait()
}

func (s *scheduler) note(format string, a ...interface{}) {
	if len(s.i.schedTrace) < 400 {
		s.i.schedTrace = append(s.i.schedTrace, fmt.Sprintf(format, a...))
	}
	if traceSched {
		fmt.Fprintf(os.Stderr, "[sched] "+format+"\n", a...)
	}
}

func (s *scheduler) spawn(fr *frame, instr *ssa.Go, fn value, args []value) {
	if len(s.tasks) >= s.maxTasks {
		panic(&pathAbort{kind: abUnwind, msg: fmt.Sprintf("more than %d tasks", s.maxTasks)})
	}
	t := &task{id: len(s.tasks), wake: make(chan int, 1)}
	s.tasks = append(s.tasks, t)
	pos := instr.Pos()
	s.note("task %d spawns task %d at %s", s.cur.id, t.id, s.i.pos(pos))
	if s.i.race != nil {
		s.i.hbFork(*s.i.hbClock(s.cur), t)
		s.i.hbTick(s.cur)
	}
	s.wg.Add(1)
	i := s.i
	go func() {
		defer s.wg.Done()
		if cmd := <-t.wake; cmd == 2 {
			return
		}
		defer func() {
			r := recover()
			if pa, ok := r.(*pathAbort); ok && pa.kind == abKilled {
				return
			}
			t.done = true
			if r != nil {
				// propagate to the main goroutine, which owns the path outcome
				s.fatal = r
				s.handToMain()
				return
			}
			s.taskExit(t)
		}()
		i.curFrame, i.depth = nil, 0
		i.call(nil, pos, fn, args)
	}()
	s.yield("go")
}

// handToMain gives the baton to the main task without parking (the caller's goroutine ends).
func (s *scheduler) handToMain() {
	main := s.tasks[0]
	s.cur = main
	s.i.curTask = main
	main.wake <- 1
}

// switchTo hands the baton to next and parks the current task until it is resumed.
func (s *scheduler) switchTo(next *task) {
	cur := s.cur
	if next == cur {
		return
	}
	cur.savedFrame, cur.savedDepth = s.i.curFrame, s.i.depth
	s.cur = next
	s.i.curTask = next
	next.wake <- 1
	s.park(cur)
}

func (s *scheduler) park(cur *task) {
	cmd := <-cur.wake
	if cmd == 2 {
		panic(&pathAbort{kind: abKilled})
	}
	s.i.curFrame, s.i.depth = cur.savedFrame, cur.savedDepth
	if cur.isMain && s.fatal != nil {
		f := s.fatal
		s.fatal = nil
		panic(f)
	}
}

// runnable lists tasks that can make progress (other than `except`).
func (s *scheduler) runnable(except *task) []*task {
	var rs []*task
	var q *task
	for _, t := range s.tasks {
		if t.done || t == except {
			continue
		}
		if t.quiescing {
			q = t
			continue
		}
		if !t.blocked || t.ready() {
			rs = append(rs, t)
		}
	}
	if len(rs) == 0 && q != nil {
		// quiescence: nobody else can run
		rs = append(rs, q)
	}
	return rs
}

// rrOrder sorts candidate tasks in round-robin order starting after task `after`.
func (s *scheduler) rrOrder(cands []*task, after *task) []*task {
	n := len(s.tasks)
	out := make([]*task, 0, len(cands))
	for d := 1; d <= n; d++ {
		id := (after.id + d) % n
		for _, c := range cands {
			if c.id == id {
				out = append(out, c)
			}
		}
	}
	return out
}

// pick chooses among candidates given in priority order: index 0 is what the
// deterministic scheduler does; taking index k costs k delays from the budget.
func (s *scheduler) pick(cands []*task) *task {
	if len(cands) == 1 {
		return cands[0]
	}
	left := s.maxPreempt - s.preempt
	opts := len(cands)
	if opts > left+1 {
		opts = left + 1
	}
	k := 0
	if opts > 1 {
		k = s.i.choose(opts)
	}
	s.preempt += k
	return cands[k]
}

// yield is a scheduling point at which the current task could continue.
func (s *scheduler) yield(what string) {
	if s.preempt >= s.maxPreempt || s.i.inLazyInit > 0 {
		return // (package initialisers run to completion: Go runs them before main)
	}
	var cands []*task
	for _, t := range s.runnable(s.cur) {
		if !t.quiescing {
			cands = append(cands, t)
		}
	}
	if len(cands) == 0 {
		return
	}
	next := s.pick(append([]*task{s.cur}, s.rrOrder(cands, s.cur)...))
	if next == s.cur {
		return
	}
	s.note("delay: task %d -> task %d at %s (%s)", s.cur.id, next.id, s.site(), what)
	s.switchTo(next)
}

func (s *scheduler) site() string {
	if s.i.curFrame != nil {
		return s.i.curFrame.site()
	}
	return "?"
}

// block parks the current task until cond() holds (re-checked by the caller).
func (s *scheduler) block(cond func() bool, what string) {
	t := s.cur
	t.blocked = true
	t.ready = cond
	t.what = what
	defer func() { t.blocked = false; t.ready = nil }()
	for {
		if cond() {
			return
		}
		rs := s.runnable(t)
		if len(rs) == 0 {
			if s.advanceTime() {
				continue
			}
			s.deadlock()
		}
		next := s.pick(s.rrOrder(rs, t))
		s.note("task %d blocks (%s); run task %d", t.id, what, next.id)
		s.switchTo(next)
		// resumed: somebody saw us ready (or time advanced)
	}
}

func (s *scheduler) deadlock() {
	var parts []string
	for _, t := range s.tasks {
		if !t.done {
			parts = append(parts, fmt.Sprintf("task %d blocked on %s", t.id, t.what))
		}
	}
	sort.Strings(parts)
	msg := "all tasks blocked: " + fmt.Sprint(parts)
	if s.i.livelock {
		msg = "no progress (more than 200 virtual-time advances in which only timers ran) while " + fmt.Sprint(parts)
	}
	ab := &pathAbort{kind: abDeadlock, msg: msg}
	if s.cur.isMain {
		panic(ab)
	}
	s.fatal = ab
	cur := s.cur
	cur.savedFrame, cur.savedDepth = s.i.curFrame, s.i.depth
	s.handToMain()
	s.park(cur)
}

// taskExit runs when a task's function returns: pick the next runnable task (free switch).
func (s *scheduler) taskExit(t *task) {
	s.note("task %d exits", t.id)
	for {
		rs := s.runnable(t)
		if len(rs) == 0 {
			if s.advanceTime() {
				continue
			}
			ab := &pathAbort{kind: abDeadlock, msg: "all remaining tasks blocked after a task exit"}
			s.fatal = ab
			s.handToMain()
			return
		}
		next := s.pick(s.rrOrder(rs, t))
		s.cur = next
		s.i.curTask = next
		next.wake <- 1
		return
	}
}

// quiesce parks main until no other task can run (virtual time does not advance).
func (s *scheduler) quiesce() {
	t := s.cur
	for {
		rs := s.runnable(t)
		if len(rs) == 0 {
			return
		}
		t.quiescing = true
		t.what = "quiesce"
		next := s.pick(s.rrOrder(rs, t))
		s.switchTo(next)
		t.quiescing = false
	}
}

// advanceTime moves the virtual clock to the earliest armed timer and fires it.
func (s *scheduler) advanceTime() bool {
	return s.i.fireNextTimer()
}

// ---- channels under the scheduler ----

func (s *scheduler) send(ch *vchan, v value) {
	s.yield("chan send")
	if ch == nil {
		s.block(func() bool { return false }, "send on nil channel")
	}
	for {
		if ch.closed {
			panic(s.i.runtimeError("send on closed channel"))
		}
		if len(ch.buf) < ch.cap {
			ch.buf = append(ch.buf, copyVal(v))
			s.i.hbChanSendBuf(s.cur, ch)
			return
		}
		if ch.cap == 0 {
			// rendezvous: park with the value until a receiver takes it
			w := &sendWait{t: s.cur, v: copyVal(v)}
			ch.sendq = append(ch.sendq, w)
			s.block(func() bool { return w.done || ch.closed }, fmt.Sprintf("send on chan %d", ch.id))
			if w.done {
				return
			}
			continue
		}
		w := &sendWait{t: s.cur, v: copyVal(v)}
		ch.sendq = append(ch.sendq, w)
		s.block(func() bool { return w.done || ch.closed }, fmt.Sprintf("send on chan %d", ch.id))
		if w.done {
			return
		}
		w.dead = true
	}
}

func (s *scheduler) takeFromSendq(ch *vchan) (value, bool) {
	w := s.takeWaitFromSendq(ch)
	if w == nil {
		return nil, false
	}
	return w.v, true
}

func (s *scheduler) takeWaitFromSendq(ch *vchan) *sendWait {
	for len(ch.sendq) > 0 {
		w := ch.sendq[0]
		ch.sendq = ch.sendq[1:]
		if w.done || w.dead {
			continue
		}
		if w.sel != nil {
			if w.sel.chosen >= 0 {
				continue // that select already completed through another case
			}
			w.sel.chosen = w.idx
		}
		w.done = true
		return w
	}
	return nil
}

func (s *scheduler) recvNow(ch *vchan) (value, bool) {
	if len(ch.buf) > 0 {
		v := ch.buf[0]
		ch.buf = ch.buf[1:]
		// Go runtime semantics: a receive from a full buffer immediately refills it from a parked sender
		s.i.hbChanRecvBuf(s.cur, ch)
		if ch.timer == nil {
			if w := s.takeWaitFromSendq(ch); w != nil {
				ch.buf = append(ch.buf, w.v)
				s.i.hbChanSendBuf(w.t, ch)
			}
		}
		return v, true
	}
	if w := s.takeWaitFromSendq(ch); w != nil {
		s.i.hbChanHandoff(w.t, s.cur)
		return w.v, true
	}
	s.i.hbAcquire(s.cur, chanClose{ch})
	return nil, false // closed
}

func (s *scheduler) recv(ch *vchan) (value, bool) {
	s.yield("chan recv")
	if ch == nil {
		s.block(func() bool { return false }, "receive from nil channel")
	}
	for !s.i.recvReady(ch) {
		s.block(func() bool { return s.i.recvReady(ch) }, fmt.Sprintf("recv on chan %d", ch.id))
	}
	return s.recvNow(ch)
}

func (s *scheduler) sendNow(ch *vchan, v value) {
	ch.buf = append(ch.buf, copyVal(v))
	s.i.hbChanSendBuf(s.cur, ch)
}

func (s *scheduler) closed(ch *vchan) {}

func (s *scheduler) parkSelect(chans []*vchan, instr *ssa.Select) {
	s.parkSelectSel(chans, instr, &selWait{chosen: -1})
}

func (s *scheduler) parkSelectSel(chans []*vchan, instr *ssa.Select, sel *selWait) {
	i := s.i
	fr := i.curFrame
	cond := func() bool {
		if sel.chosen >= 0 {
			return true
		}
		for k, st := range instr.States {
			ch := chans[k]
			if st.Dir == types.RecvOnly {
				if i.recvReady(ch) {
					return true
				}
			} else if i.sendReady(ch) {
				return true
			}
		}
		return false
	}
	s.block(cond, "select at "+i.pos(instr.Pos()))
	i.curFrame = fr
}

func (i *interpreter) numTasksLive() int {
	if i.sched == nil {
		return 1
	}
	n := 0
	for _, t := range i.sched.tasks {
		if !t.done {
			n++
		}
	}
	return n
}
