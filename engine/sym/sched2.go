package sym

import (
	"golang.org/x/tools/go/ssa"
)

// Scheduler: deterministic cooperative scheduling of interpreted goroutines
// (DESIGN §2.6). Filled in by stage E2; in sequential mode (i.sched == nil)
// `go` statements are collected and run with rt.RunSpawned.

type task struct {
	id int
}

type vtimer struct{}

type scheduler struct {
	i *interpreter
}

func newScheduler(i *interpreter) *scheduler { return &scheduler{i: i} }

func (s *scheduler) runMain(f func())                                          { f() }
func (s *scheduler) teardown()                                                 {}
func (s *scheduler) spawn(fr *frame, instr *ssa.Go, fn value, args []value)    { panic(s.i.unsupported("scheduler: go")) }
func (s *scheduler) send(ch *vchan, v value)                                   { panic(s.i.unsupported("scheduler: send")) }
func (s *scheduler) recv(ch *vchan) (value, bool)                              { panic(s.i.unsupported("scheduler: recv")) }
func (s *scheduler) recvNow(ch *vchan) (value, bool)                           { panic(s.i.unsupported("scheduler: recv")) }
func (s *scheduler) sendNow(ch *vchan, v value)                                { panic(s.i.unsupported("scheduler: send")) }
func (s *scheduler) closed(ch *vchan)                                          {}
func (s *scheduler) yield(what string)                                         {}
func (s *scheduler) parkSelect(chans []*vchan, instr *ssa.Select)              { panic(s.i.unsupported("scheduler: select")) }
