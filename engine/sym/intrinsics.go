package sym

import (
	"unicode/utf8"
	"fmt"
	"go/types"
	"math"
	"strings"
	"unsafe"

	"golang.org/x/tools/go/ssa"

	"verif/engine/smt"
)

type intrinsic func(fr *frame, args []value) value

// nativeFn is a callable value implemented by the engine.
type nativeFn struct {
	name string
	fn   func(i *interpreter, args []value) value
}

func unsafeSliceImpl(p *value, n int) []value {
	return unsafe.Slice(p, n)
}

const rtSuffix = "/zzverifrt."

// intrinsicFor resolves an intrinsic by the function's full name
// (generic instances by their origin's name).
func (i *interpreter) intrinsicFor(fn *ssa.Function) intrinsic {
	if c, ok := i.ex.intrCache.Load(fn); ok {
		if c == nil {
			return nil
		}
		return c.(intrinsic)
	}
	name := fn.String()
	if o := fn.Origin(); o != nil {
		name = o.String()
	}
	var r intrinsic
	if k := strings.Index(name, rtSuffix); k >= 0 {
		r = rtIntrinsics[name[k+len(rtSuffix):]]
		if r == nil {
			r = func(fr *frame, args []value) value {
				panic(fr.i.unsupported("unknown rt function " + name))
			}
		}
	} else if f, ok := stdIntrinsics[name]; ok {
		r = f
	} else {
		r = patternIntrinsic(fn, name)
	}
	if r == nil {
		i.ex.intrCache.Store(fn, nil)
		return nil
	}
	i.ex.intrCache.Store(fn, r)
	return r
}

func argString(v value) string {
	s, ok := v.(string)
	if !ok {
		panic("rt: name/id argument must be a constant string")
	}
	return s
}

func (i *interpreter) newInput(name, kind string, k types.BasicKind) value {
	w, _, _ := intInfo(k)
	var t *smt.Term
	if k == types.Bool {
		t = i.fresh(name, smt.Bool)
	} else {
		t = i.fresh(name, smt.BV(w))
	}
	i.nondet = append(i.nondet, NondetRec{Name: name, Kind: kind, Terms: []*smt.Term{t}})
	return t
}

func rtInt(kind string, k types.BasicKind) intrinsic {
	return func(fr *frame, args []value) value {
		return fr.i.newInput(argString(args[0]), kind, k)
	}
}

var rtIntrinsics map[string]intrinsic

func init() {
	rtIntrinsics = map[string]intrinsic{
		"Bool":   rtInt("bool", types.Bool),
		"Int":    rtInt("int", types.Int),
		"Int8":   rtInt("int8", types.Int8),
		"Int16":  rtInt("int16", types.Int16),
		"Int32":  rtInt("int32", types.Int32),
		"Int64":  rtInt("int64", types.Int64),
		"Uint":   rtInt("uint", types.Uint),
		"Uint8":  rtInt("uint8", types.Uint8),
		"Uint16": rtInt("uint16", types.Uint16),
		"Uint32": rtInt("uint32", types.Uint32),
		"Uint64": rtInt("uint64", types.Uint64),
		"Float64": func(fr *frame, args []value) value {
			i := fr.i
			name := argString(args[0])
			b := i.fresh(name, smt.BV(64))
			i.nondet = append(i.nondet, NondetRec{Name: name, Kind: "float64", Terms: []*smt.Term{b}})
			return i.ctx.BitsToF(b)
		},
		"String": func(fr *frame, args []value) value {
			i := fr.i
			name := argString(args[0])
			maxLen := int(asInt64(args[1]))
			n := i.choose(maxLen + 1)
			rec := NondetRec{Name: name, Kind: "string", Len: n}
			b := make([]value, n)
			for k := 0; k < n; k++ {
				t := i.fresh(fmt.Sprintf("%s.%d", name, k), smt.BV(8))
				rec.Terms = append(rec.Terms, t)
				b[k] = t
			}
			i.nondet = append(i.nondet, rec)
			return mkStr(b)
		},
		"Bytes": func(fr *frame, args []value) value {
			i := fr.i
			name := argString(args[0])
			maxLen := int(asInt64(args[1]))
			n := i.choose(maxLen + 1)
			rec := NondetRec{Name: name, Kind: "bytes", Len: n}
			b := make([]value, n)
			for k := 0; k < n; k++ {
				t := i.fresh(fmt.Sprintf("%s.%d", name, k), smt.BV(8))
				rec.Terms = append(rec.Terms, t)
				b[k] = t
			}
			i.nondet = append(i.nondet, rec)
			return b
		},
		"FixedBytes": func(fr *frame, args []value) value {
			i := fr.i
			name := argString(args[0])
			n := int(asInt64(args[1]))
			rec := NondetRec{Name: name, Kind: "bytes", Len: n}
			b := make([]value, n)
			for k := 0; k < n; k++ {
				t := i.fresh(fmt.Sprintf("%s.%d", name, k), smt.BV(8))
				rec.Terms = append(rec.Terms, t)
				b[k] = t
			}
			i.nondet = append(i.nondet, rec)
			return b
		},
		"OpaqueBytes": func(fr *frame, args []value) value {
			i := fr.i
			name := argString(args[0])
			t := i.fresh(name+".len", smt.BV(64))
			i.nondet = append(i.nondet, NondetRec{Name: name, Kind: "opaquelen", Terms: []*smt.Term{t}})
			i.assumeInternal(i.ctx.BVCmp(smt.OpSLe, i.ctx.BVC(0, 64), t))
			return &symSlice{n: t}
		},
		"Prefer": func(fr *frame, args []value) value {
			fr.i.soft = append(fr.i.soft, fr.i.termOf(args[0]))
			return nil
		},
		"Assume": func(fr *frame, args []value) value {
			fr.i.userAssume(fr.i.termOf(args[0]))
			return nil
		},
		"Assert": func(fr *frame, args []value) value {
			fr.i.userAssert(args[0], argString(args[1]))
			return nil
		},
		"Known": func(fr *frame, args []value) value {
			fr.i.known = append(fr.i.known, knownPred{id: argString(args[0]), cond: fr.i.termOf(args[1])})
			return nil
		},
		"Observe": func(fr *frame, args []value) value {
			fr.i.observes = append(fr.i.observes, obsRec{tag: argString(args[0]), v: args[1]})
			return nil
		},
		"And":     func(fr *frame, args []value) value { return fr.i.andV(args[0], args[1]) },
		"Or":      func(fr *frame, args []value) value { return fr.i.orV(args[0], args[1]) },
		"Not":     func(fr *frame, args []value) value { return fr.i.notV(args[0]) },
		"Implies": func(fr *frame, args []value) value { return fr.i.orV(fr.i.notV(args[0]), args[1]) },
		"Param": func(fr *frame, args []value) value {
			name := argString(args[0])
			v, ok := fr.i.ex.cfg.Params[name]
			if !ok {
				panic(fr.i.unsupported("rt.Param: no value for " + name))
			}
			fr.i.nondet = append(fr.i.nondet, NondetRec{Name: name, Kind: "param", Conc: []uint64{uint64(v)}})
			return v
		},
		"Choose": func(fr *frame, args []value) value {
			n := int(asInt64(args[0]))
			v := fr.i.choose(n)
			fr.i.nondet = append(fr.i.nondet, NondetRec{Name: "choose", Kind: "choose", Conc: []uint64{uint64(v)}})
			return v
		},
		"Spawned": func(fr *frame, args []value) value { return len(fr.i.spawned) },
		"RunSpawned": func(fr *frame, args []value) value {
			k := int(asInt64(args[0]))
			sp := fr.i.spawned[k]
			if sp.done {
				return nil
			}
			sp.done = true
			fr.i.call(fr, sp.pos, sp.fn, sp.args)
			return nil
		},
		"Reach": func(fr *frame, args []value) value {
			fr.i.reached[argString(args[0])]++
			return nil
		},
		"Symbolic": func(fr *frame, args []value) value { return true },
		"IteInt": func(fr *frame, args []value) value {
			i := fr.i
			if b, ok := args[0].(bool); ok {
				if b {
					return args[1]
				}
				return args[2]
			}
			return lower(types.Int, i.ctx.Ite(args[0].(*smt.Term), i.termOf(args[1]), i.termOf(args[2])))
		},
		"WatchBegin": func(fr *frame, args []value) value {
			// args: tag string, root any
			i := fr.i
			if i.watch == nil {
				i.watch = map[*value]string{}
			}
			i.reachCells(args[1], argString(args[0]), map[*value]bool{}, i.watch)
			return nil
		},
		"WatchGlobals": func(fr *frame, args []value) value {
			// every package-level variable (initialised so far) of packages under the given path prefix,
			// and everything reachable from them
			i := fr.i
			prefix := argString(args[0])
			if i.watch == nil {
				i.watch = map[*value]string{}
			}
			seen := map[*value]bool{}
			for g, cell := range i.globals {
				if g.Pkg == nil || !strings.HasPrefix(g.Pkg.Pkg.Path(), prefix) || strings.Contains(g.Pkg.Pkg.Path(), "zzverifrt") {
					continue
				}
				if strings.HasPrefix(g.Name(), "init$") || strings.HasPrefix(g.Name(), "verif") || strings.HasPrefix(g.Name(), "Verif") {
					continue
				}
				i.reachCells(cell, "global "+g.Pkg.Pkg.Path()+"."+g.Name(), seen, i.watch)
			}
			return nil
		},
		"UFLookup": func(fr *frame, args []value) value { return (*ssa.Function)(nil) },
		"RaceBegin": func(fr *frame, args []value) value {
			if fr.i.sched == nil {
				panic(fr.i.unsupported("rt.RaceBegin needs the scheduler (\"sched\": true)"))
			}
			if fr.i.race == nil {
				fr.i.race = newRaceState()
			}
			fr.i.noteStub("data races: happens-before (vector clocks) over every explored schedule; edges: go, channel send/recv/close + buffer slots, Mutex/RWMutex, WaitGroup, sync/atomic, sync.Map, atomic.Value, timers; accesses by harness frames and package initialisers are not tracked")
			return nil
		},
		"RaceCount": func(fr *frame, args []value) value {
			if fr.i.race == nil {
				return 0
			}
			for _, r := range fr.i.race.reports {
				fr.i.noteStub(r)
			}
			return len(fr.i.race.reports)
		},
		"WatchHits": func(fr *frame, args []value) value { return len(fr.i.watchHits) },
		"WatchHitsTag": func(fr *frame, args []value) value {
			// hits on cells registered under the given tag (tags of different purposes never interfere)
			tag := argString(args[0])
			n := 0
			for _, h := range fr.i.watchHits {
				if strings.HasPrefix(h.what, tag+" ") {
					n++
				}
			}
			return n
		},
		"WatchChangedTag": func(fr *frame, args []value) value {
			// value-level frame condition: stores under the tag that CHANGED the cell's value
			tag := argString(args[0])
			n := 0
			for _, h := range fr.i.watchHits {
				if h.changed && strings.HasPrefix(h.what, tag+" ") {
					n++
				}
			}
			return n
		},
		// NativeCheck(f): the compiled harness evaluates f (a check only the native run can afford, e.g. comparing
		// serialisations); the engine, which decides the same fact by other means, takes it as true without running f.
		"NativeCheck": func(fr *frame, args []value) value { return true },
		"WatchReport": func(fr *frame, args []value) value {
			// makes the first hits visible in the violation message
			for k, h := range fr.i.watchHits {
				if k < 3 {
					fr.i.noteStub("watched cell written: " + h.what)
				}
			}
			return nil
		},
		"WatchEnd": func(fr *frame, args []value) value {
			fr.i.watch = nil
			return nil
		},
		"WatchEndTag": func(fr *frame, args []value) value {
			tag := argString(args[0])
			for c, t := range fr.i.watch {
				if t == tag {
					delete(fr.i.watch, c)
				}
			}
			return nil
		},
	}
}

// reachCells adds every addressable cell reachable from v to out.
func (i *interpreter) reachCells(v value, tag string, seen map[*value]bool, out map[*value]string) {
	switch x := v.(type) {
	case *value:
		if x == nil || seen[x] {
			return
		}
		seen[x] = true
		out[x] = tag
		i.reachInside(x, tag, seen, out)
	case iface:
		if x.t != nil {
			i.reachCells(x.v, tag, seen, out)
		}
	case structure:
		for k := range x {
			i.reachCells(x[k], tag, seen, out)
		}
	case array:
		for k := range x {
			i.reachCells(x[k], tag, seen, out)
		}
	case []value:
		full := x[:cap(x)]
		for k := range full {
			p := &full[k]
			if !seen[p] {
				seen[p] = true
				if k < len(x) {
					out[p] = tag
				}
				i.reachInside(p, tag, seen, out)
			}
		}
	case *omap:
		if x != nil {
			for s := range x.keys {
				if x.live[s] {
					i.reachCells(x.keys[s], tag, seen, out)
					i.reachCells(x.vals[s], tag, seen, out)
				}
			}
		}
	case *closure:
		for _, e := range x.Env {
			i.reachCells(e, tag, seen, out)
		}
	case unsafePtr:
		i.reachCells(x.p, tag, seen, out)
	}
}

func (i *interpreter) reachInside(p *value, tag string, seen map[*value]bool, out map[*value]string) {
	switch x := (*p).(type) {
	case structure:
		for k := range x {
			q := &x[k]
			if !seen[q] {
				seen[q] = true
				out[q] = tag
				i.reachInside(q, tag, seen, out)
			}
		}
	case array:
		for k := range x {
			q := &x[k]
			if !seen[q] {
				seen[q] = true
				out[q] = tag
				i.reachInside(q, tag, seen, out)
			}
		}
	default:
		i.reachCells(x, tag, seen, out)
	}
}

// ---- standard library intrinsics ----

var stdIntrinsics map[string]intrinsic

func nop(fr *frame, args []value) value { return nil }

func utf8ValidString(s string) bool { return utf8.ValidString(s) }


func atomicLoad(fr *frame, args []value) value {
	p := args[0].(*value)
	if p == nil {
		panic(fr.i.nilDeref())
	}
	fr.i.hbAtomic(fr, p)
	return *p
}

func atomicStore(fr *frame, args []value) value {
	p := args[0].(*value)
	if p == nil {
		panic(fr.i.nilDeref())
	}
	fr.i.noteStore(p)
	fr.i.hbAtomic(fr, p)
	*p = args[1]
	return nil
}

func atomicSwap(fr *frame, args []value) value {
	p := args[0].(*value)
	old := *p
	fr.i.noteStore(p)
	fr.i.hbAtomic(fr, p)
	*p = args[1]
	return old
}

func atomicAdd(k types.BasicKind) intrinsic {
	return func(fr *frame, args []value) value {
		p := args[0].(*value)
			t := types.Typ[k]
		nv := fr.i.binop(tokenADD, t, t, *p, args[1])
		fr.i.noteStore(p)
		fr.i.hbAtomic(fr, p)
		*p = nv
		return nv
	}
}

func atomicCAS(fr *frame, args []value) value {
	i := fr.i
	p := args[0].(*value)
	i.hbAtomic(fr, p)
	var eq value
	switch old := args[1].(type) {
	case unsafePtr:
		cur, _ := (*p).(unsafePtr)
		eq = cur.p == old.p
	default:
		eq = i.equalsV(nil, *p, args[1])
	}
	var ok bool
	switch e := eq.(type) {
	case bool:
		ok = e
	case *smt.Term:
		ok = i.branch(e, nil)
	}
	if ok {
		i.noteStore(p)
		*p = args[2]
	}
	return ok
}

func mathUnary(f func(float64) float64) intrinsic {
	return func(fr *frame, args []value) value {
		x, ok := args[0].(float64)
		if !ok {
			panic(fr.i.unsupported("math function on symbolic float"))
		}
		return f(x)
	}
}

func init() {
	stdIntrinsics = map[string]intrinsic{
		"internal/abi.NoEscape": func(fr *frame, args []value) value { return args[0] },
		"internal/abi.FuncPCABIInternal": func(fr *frame, args []value) value { return uintptr(0) },
		"internal/abi.FuncPCABI0":        func(fr *frame, args []value) value { return uintptr(0) },

		"math.Float64bits":     func(fr *frame, args []value) value { return fr.i.fpBits(args[0]) },
		"math.Float64frombits": func(fr *frame, args []value) value { return fr.i.fpFromBits(args[0]) },
		"math.Float32bits":     func(fr *frame, args []value) value { return math.Float32bits(args[0].(float32)) },
		"math.Float32frombits": func(fr *frame, args []value) value { return math.Float32frombits(args[0].(uint32)) },
		"math.Floor":           mathUnary(math.Floor),
		"math.Ceil":            mathUnary(math.Ceil),
		"math.Trunc":           mathUnary(math.Trunc),
		"math.Sqrt":            mathUnary(math.Sqrt),
		"math.Log":             mathUnary(math.Log),
		"math.Log2":            mathUnary(math.Log2),
		"math.Log10":           mathUnary(math.Log10),
		"math.Exp":             mathUnary(math.Exp),
		"math.Pow": func(fr *frame, args []value) value {
			x, ok1 := args[0].(float64)
			y, ok2 := args[1].(float64)
			if !ok1 || !ok2 {
				panic(fr.i.unsupported("math.Pow on symbolic float"))
			}
			return math.Pow(x, y)
		},
		"math.Mod": func(fr *frame, args []value) value {
			x, ok1 := args[0].(float64)
			y, ok2 := args[1].(float64)
			if !ok1 || !ok2 {
				panic(fr.i.unsupported("math.Mod on symbolic float"))
			}
			return math.Mod(x, y)
		},

		"sync/atomic.LoadInt32":   atomicLoad,
		"sync/atomic.LoadInt64":   atomicLoad,
		"sync/atomic.LoadUint32":  atomicLoad,
		"sync/atomic.LoadUint64":  atomicLoad,
		"sync/atomic.LoadUintptr": atomicLoad,
		"sync/atomic.LoadPointer": atomicLoad,
		"sync/atomic.StoreInt32":   atomicStore,
		"sync/atomic.StoreInt64":   atomicStore,
		"sync/atomic.StoreUint32":  atomicStore,
		"sync/atomic.StoreUint64":  atomicStore,
		"sync/atomic.StoreUintptr": atomicStore,
		"sync/atomic.StorePointer": atomicStore,
		"sync/atomic.SwapInt32":   atomicSwap,
		"sync/atomic.SwapInt64":   atomicSwap,
		"sync/atomic.SwapUint32":  atomicSwap,
		"sync/atomic.SwapUint64":  atomicSwap,
		"sync/atomic.SwapUintptr": atomicSwap,
		"sync/atomic.SwapPointer": atomicSwap,
		"sync/atomic.AddInt32":   atomicAdd(types.Int32),
		"sync/atomic.AddInt64":   atomicAdd(types.Int64),
		"sync/atomic.AddUint32":  atomicAdd(types.Uint32),
		"sync/atomic.AddUint64":  atomicAdd(types.Uint64),
		"sync/atomic.AddUintptr": atomicAdd(types.Uintptr),
		"sync/atomic.CompareAndSwapInt32":   atomicCAS,
		"sync/atomic.CompareAndSwapInt64":   atomicCAS,
		"sync/atomic.CompareAndSwapUint32":  atomicCAS,
		"sync/atomic.CompareAndSwapUint64":  atomicCAS,
		"sync/atomic.CompareAndSwapUintptr": atomicCAS,
		"sync/atomic.CompareAndSwapPointer": atomicCAS,

		"sync.runtime_registerPoolCleanup": nop,
		"sync.runtime_notifyListCheck":     nop,
		"sync.throw": func(fr *frame, args []value) value {
			panic(fr.i.runtimeError("fatal error: " + toString(args[0])))
		},
		"sync.fatal": func(fr *frame, args []value) value {
			panic(fr.i.runtimeError("fatal error: " + toString(args[0])))
		},
		// randomness: the buffer keeps its (zero) bytes; nothing the obligations assert may depend on the values
		"(*crypto/rand.reader).Read": func(fr *frame, args []value) value {
			fr.i.noteStub("crypto/rand.Reader.Read: buffer left as it is (randomness is an environment input; the cipher contract does not depend on the key)")
			b, _ := args[1].([]value)
			return tuple{len(b), iface{}}
		},
		"crypto/rand.Read": func(fr *frame, args []value) value {
			fr.i.noteStub("crypto/rand.Read: buffer left as it is")
			b, _ := args[0].([]value)
			return tuple{len(b), iface{}}
		},
		// sync.Pool: a LIFO free list per pool (what one P sees in the runtime: an object that was Put is handed out
		// again by the next Get); Put releases and Get acquires on the pool (the runtime's pool operations synchronise)
		"(*sync.Pool).Get": func(fr *frame, args []value) value {
			i := fr.i
			p := args[0].(*value)
			if i.pools == nil {
				i.pools = map[*value][]value{}
			}
			i.hbAcquire(i.curTask, p)
			if l := i.pools[p]; len(l) > 0 {
				x := l[len(l)-1]
				i.pools[p] = l[:len(l)-1]
				return x
			}
			st := (*p).(structure)
			// field "New" is the last field of sync.Pool
			newFn := st[len(st)-1]
			switch f := newFn.(type) {
			case *ssa.Function:
				if f == nil {
					return iface{}
				}
			}
			return i.call(fr, 0, newFn, nil)
		},
		"(*sync.Pool).Put": func(fr *frame, args []value) value {
			i := fr.i
			p := args[0].(*value)
			if x, ok := args[1].(iface); ok && x.t == nil {
				return nil
			}
			if i.pools == nil {
				i.pools = map[*value][]value{}
			}
			i.pools[p] = append(i.pools[p], args[1])
			i.hbRelease(i.curTask, p)
			return nil
		},

		"runtime.KeepAlive":    nop,
		"runtime.SetFinalizer": nop,
		"runtime.GC":           nop,
		"runtime.Gosched":      func(fr *frame, args []value) value { fr.i.syncPoint("gosched"); return nil },
		"runtime.NumCPU": func(fr *frame, args []value) value {
			if n, ok := fr.i.ex.cfg.Params["NUMCPU"]; ok {
				return n
			}
			return 4
		},
		"runtime.GOMAXPROCS":   func(fr *frame, args []value) value { return 4 },
		// an allocation of a symbolic number of bytes is an opaque buffer of that length (nothing reads it)
		"(*github.com/apache/arrow-go/v18/arrow/memory.GoAllocator).Allocate": func(fr *frame, args []value) value {
			if t, ok := args[1].(*smt.Term); ok {
				return &symSlice{n: t}
			}
			return fallThrough{}
		},
		"(*github.com/apache/arrow-go/v18/arrow/memory.GoAllocator).Free": nop,
		"runtime.Caller": func(fr *frame, args []value) value {
			return tuple{uintptr(0), "", 0, false}
		},
		"runtime.Callers": func(fr *frame, args []value) value { return 0 },
		"runtime/debug.SetGCPercent": func(fr *frame, args []value) value { return 100 },

		"os.Getenv":        func(fr *frame, args []value) value { return "" },
		"os.LookupEnv":     func(fr *frame, args []value) value { return tuple{"", false} },
		"syscall.Getenv":   func(fr *frame, args []value) value { return tuple{"", false} },
		"os.Exit": func(fr *frame, args []value) value {
			panic(fr.i.unsupported("os.Exit called"))
		},

		"internal/bytealg.IndexByte":       ixByte,
		"internal/bytealg.IndexByteString": ixByte,
		"internal/bytealg.Equal": func(fr *frame, args []value) value {
			return fr.i.strEq(mkStr(args[0].([]value)), mkStr(args[1].([]value)))
		},
		"internal/bytealg.Compare":       bytesCompare,
		"internal/bytealg.CompareString": bytesCompare,
		"internal/bytealg.Count":         countByte,
		"internal/bytealg.CountString":   countByte,
		"internal/bytealg.MakeNoZero": func(fr *frame, args []value) value {
			n := int(fr.i.concInt(args[0]))
			s := make([]value, n)
			for k := range s {
				s[k] = uint8(0)
			}
			return s
		},
		"internal/bytealg.Index":       func(fr *frame, args []value) value { return genericIndex(fr, args) },
		"internal/bytealg.IndexString": func(fr *frame, args []value) value { return genericIndex(fr, args) },
		"internal/stringslite.Index":   func(fr *frame, args []value) value { return genericIndex(fr, args) },
		// UTF-8 decoding of (partly) symbolic bytes: the real functions index a 256-entry table with the first byte
		"unicode/utf8.DecodeRuneInString": func(fr *frame, args []value) value {
			switch s := args[0].(type) {
			case string:
				r, w := decodeRune(s)
				return tuple{int32(r), w}
			case *symStr:
				if len(s.b) == 0 {
					return tuple{int32(0xFFFD), 0}
				}
				r, w := fr.i.decodeRuneSym(s.b)
				return tuple{r, w}
			}
			panic(fr.i.unsupported("utf8.DecodeRuneInString: unexpected argument"))
		},
		"unicode/utf8.DecodeRune": func(fr *frame, args []value) value {
			b, _ := args[0].([]value)
			if len(b) == 0 {
				return tuple{int32(0xFFFD), 0}
			}
			r, w := fr.i.decodeRuneSym(b)
			return tuple{r, w}
		},
		"unicode/utf8.ValidString": func(fr *frame, args []value) value {
			var b []value
			switch s := args[0].(type) {
			case string:
				return utf8ValidString(s)
			case *symStr:
				b = s.b
			}
			for len(b) > 0 {
				r, w := fr.i.decodeRuneSym(b)
				if rr, ok := r.(int32); ok && rr == 0xFFFD && w == 1 {
					return false
				}
				b = b[w:]
			}
			return true
		},
		"strings.Index":                func(fr *frame, args []value) value { return genericIndex(fr, args) },
		"bytes.Index":                  func(fr *frame, args []value) value { return genericIndex(fr, args) },

		"internal/reflectlite.Swapper": func(fr *frame, args []value) value {
			s, ok := args[0].(iface).v.([]value)
			if !ok {
				panic(fr.i.unsupported("reflectlite.Swapper of non-slice"))
			}
			return &nativeFn{name: "swapper", fn: func(i *interpreter, a []value) value {
				x, y := int(asInt64(a[0])), int(asInt64(a[1]))
				s[x], s[y] = s[y], s[x]
				return nil
			}}
		},
		"internal/reflectlite.ValueOf": func(fr *frame, args []value) value {
			return structure{args[0], nil, nil}
		},
		"(internal/reflectlite.Value).Len": func(fr *frame, args []value) value {
			v := args[0].(structure)[0].(iface).v
			switch x := v.(type) {
			case []value:
				return len(x)
			case string:
				return len(x)
			case *symStr:
				return len(x.b)
			case *omap:
				return x.length()
			}
			panic(fr.i.unsupported("reflectlite.Value.Len"))
		},
		"reflect.Swapper": func(fr *frame, args []value) value {
			s, ok := args[0].(iface).v.([]value)
			if !ok {
				panic(fr.i.unsupported("reflect.Swapper of non-slice"))
			}
			return &nativeFn{name: "swapper", fn: func(i *interpreter, a []value) value {
				x, y := int(asInt64(a[0])), int(asInt64(a[1]))
				s[x], s[y] = s[y], s[x]
				return nil
			}}
		},

		"errors.Is": errorsIs,
		"errors.As": errorsAs,

		"fmt.Sprintf":  func(fr *frame, args []value) value { return fr.i.sprintf(fr, args[0], args[1].([]value)) },
		"fmt.Sprint":   func(fr *frame, args []value) value { return fr.i.sprint(fr, args[0].([]value), false) },
		"fmt.Sprintln": func(fr *frame, args []value) value { return fr.i.sprint(fr, args[0].([]value), true) },
		"fmt.Errorf":   fmtErrorf,
		"fmt.Printf":   func(fr *frame, args []value) value { return tuple{0, iface{}} },
		"fmt.Println":  func(fr *frame, args []value) value { return tuple{0, iface{}} },
		"fmt.Print":    func(fr *frame, args []value) value { return tuple{0, iface{}} },
		"fmt.Fprintf":  func(fr *frame, args []value) value { return tuple{0, iface{}} },
		"fmt.Fprintln": func(fr *frame, args []value) value { return tuple{0, iface{}} },
		"fmt.Fprint":   func(fr *frame, args []value) value { return tuple{0, iface{}} },
		"log.Printf":   nop,
		"log.Println":  nop,
		"log.Print":    nop,

		"strconv.Itoa":       func(fr *frame, args []value) value { return fr.i.formatInt(fr, args[0], 10, true, 64) },
		"strconv.FormatInt":  func(fr *frame, args []value) value { return fr.i.formatInt(fr, args[0], int(asInt64(args[1])), true, 64) },
		"strconv.FormatUint": func(fr *frame, args []value) value { return fr.i.formatInt(fr, args[0], int(asInt64(args[1])), false, 64) },
		"strconv.FormatBool": func(fr *frame, args []value) value {
			switch b := args[0].(type) {
			case bool:
				if b {
					return "true"
				}
				return "false"
			case *smt.Term:
				if fr.i.branch(b, nil) {
					return "true"
				}
				return "false"
			}
			panic("FormatBool")
		},
		"strconv.FormatFloat": func(fr *frame, args []value) value {
			f, ok := args[0].(float64)
			if !ok {
				return fr.i.opaqueFloatString(args[0].(*smt.Term))
			}
			return formatFloat(f, args[1].(uint8), int(asInt64(args[2])), int(asInt64(args[3])))
		},
		"encoding/hex.EncodeToString": func(fr *frame, args []value) value {
			src := args[0].([]value)
			out := make([]value, 0, 2*len(src))
			for _, b := range src {
				hi, lo := fr.i.hexNibbles(b)
				out = append(out, hi, lo)
			}
			return mkStr(out)
		},
	}
}

func (i *interpreter) hexNibbles(b value) (value, value) {
	const tab = "0123456789abcdef"
	if c, ok := b.(uint8); ok {
		return tab[c>>4], tab[c&15]
	}
	t := b.(*smt.Term)
	c := i.ctx
	nib := func(n *smt.Term) value { // n is BV8 in 0..15
		lt := c.BVCmp(smt.OpULt, n, c.BVC(10, 8))
		return c.Ite(lt, c.BVBin(smt.OpAdd, n, c.BVC('0', 8)), c.BVBin(smt.OpAdd, n, c.BVC('a'-10, 8)))
	}
	return nib(c.BVBin(smt.OpLShr, t, c.BVC(4, 8))), nib(c.BVBin(smt.OpBAnd, t, c.BVC(15, 8)))
}

// opaqueFloatString: FormatFloat of a symbolic float is an opaque, injective
// 8-byte string (uninterpreted function of the bits modulo NaN payloads).
func (i *interpreter) opaqueFloatString(t *smt.Term) value {
	i.noteStub("strconv.FormatFloat(symbolic) = injective opaque 8-byte string of the value's bits (alphabet not modelled)")
	bits := i.fpBits(t).(*smt.Term)
	out := make([]value, 8)
	for k := 0; k < 8; k++ {
		out[k] = i.ctx.Extract(bits, 8*k+7, 8*k)
	}
	return mkStr(out)
}

func ixByte(fr *frame, args []value) value {
	i := fr.i
	var bs []value
	switch s := args[0].(type) {
	case []value:
		bs = s
	default:
		bs = strBytes(s)
	}
	c := args[1]
	for k, b := range bs {
		e := i.equalsV(nil, b, c)
		switch e := e.(type) {
		case bool:
			if e {
				return k
			}
		case *smt.Term:
			if i.branch(e, nil) {
				return k
			}
		}
	}
	return -1
}

func countByte(fr *frame, args []value) value {
	i := fr.i
	var bs []value
	switch s := args[0].(type) {
	case []value:
		bs = s
	default:
		bs = strBytes(s)
	}
	n := 0
	for _, b := range bs {
		switch e := i.equalsV(nil, b, args[1]).(type) {
		case bool:
			if e {
				n++
			}
		case *smt.Term:
			if i.branch(e, nil) {
				n++
			}
		}
	}
	return n
}

func toBytesAny(v value) []value {
	switch s := v.(type) {
	case []value:
		return s
	default:
		return strBytes(s)
	}
}

func bytesCompare(fr *frame, args []value) value {
	i := fr.i
	a, b := mkStr(toBytesAny(args[0])), mkStr(toBytesAny(args[1]))
	lt := i.strLess(a, b)
	eq := i.strEq(a, b)
	if l, ok := lt.(bool); ok {
		if e, ok := eq.(bool); ok {
			switch {
			case l:
				return -1
			case e:
				return 0
			}
			return 1
		}
	}
	c := i.ctx
	return lower(types.Int, c.Ite(i.termOf(lt), c.BVC(^uint64(0), 64), c.Ite(i.termOf(eq), c.BVC(0, 64), c.BVC(1, 64))))
}

func genericIndex(fr *frame, args []value) value {
	i := fr.i
	a, b := toBytesAny(args[0]), toBytesAny(args[1])
	for k := 0; k+len(b) <= len(a); k++ {
		e := i.strEq(mkStr(a[k:k+len(b)]), mkStr(b))
		switch e := e.(type) {
		case bool:
			if e {
				return k
			}
		case *smt.Term:
			if i.branch(e, nil) {
				return k
			}
		}
	}
	return -1
}

// formatInt renders an integer in base 10 (other bases: concrete only).
func (i *interpreter) formatInt(fr *frame, v value, base int, signed bool, w int) value {
	if b, ok := bitsOf(v); ok {
		if signed {
			return fmtInt(smt.Sext(b, w), base)
		}
		return fmtUint(b, base)
	}
	if base != 10 {
		panic(i.unsupported("FormatInt of symbolic value in base != 10"))
	}
	c := i.ctx
	t := v.(*smt.Term)
	neg := false
	m := t
	if signed {
		if i.branch(c.BVCmp(smt.OpSLt, t, c.BVC(0, w)), nil) {
			neg = true
			m = c.BVNeg(t)
		}
	}
	// number of digits
	d := 1
	p := uint64(10)
	for ; d < 20; d++ {
		if i.branch(c.BVCmp(smt.OpULt, m, c.BVC(p, w)), nil) {
			break
		}
		p *= 10
	}
	nw := 4*d + 1
	if nw > w {
		nw = w
	}
	mn := c.Extract(m, nw-1, 0)
	var out []value
	if neg {
		out = append(out, uint8('-'))
	}
	div := uint64(1)
	for k := 1; k < d; k++ {
		div *= 10
	}
	for k := 0; k < d; k++ {
		q := c.BVBin(smt.OpURem, c.BVBin(smt.OpUDiv, mn, c.BVC(div, nw)), c.BVC(10, nw))
		var q8 *smt.Term
		if nw >= 8 {
			q8 = c.Extract(q, 7, 0)
		} else {
			q8 = c.ZExt(q, 8)
		}
		out = append(out, lower(types.Uint8, c.BVBin(smt.OpAdd, q8, c.BVC('0', 8))))
		div /= 10
	}
	return mkStr(out)
}

// syncPoint marks a synchronisation operation (a scheduling point in E2).
func (i *interpreter) syncPoint(what string) {
	if i.sched != nil {
		i.sched.yield(what)
	}
}


// patternIntrinsic covers families of functions (loggers, no-op telemetry).
func patternIntrinsic(fn *ssa.Function, name string) intrinsic {
	pkg := ""
	if fn.Pkg != nil {
		pkg = fn.Pkg.Pkg.Path()
	} else if o := fn.Origin(); o != nil && o.Pkg != nil {
		pkg = o.Pkg.Pkg.Path()
	} else if fn.Signature.Recv() != nil {
		// method of an instantiated or external type
		if n := recvNamed(fn.Signature.Recv().Type()); n != nil && n.Obj().Pkg() != nil {
			pkg = n.Obj().Pkg().Path()
		}
	}
	if strings.HasPrefix(pkg, "github.com/open-telemetry/otel-arrow/api/") && fn.Name() == "String" && fn.Signature.Recv() != nil {
		// protobuf enum/message String() goes through protobuf reflection: opaque text
		return func(fr *frame, args []value) value {
			fr.i.noteStub("protobuf String() methods render as opaque text")
			return "<pb>"
		}
	}
	switch {
	case pkg == "go.uber.org/zap" || strings.HasPrefix(pkg, "go.uber.org/zap/"):
		res := fn.Signature.Results()
		return func(fr *frame, args []value) value {
			fr.i.noteStub("zap logging: no-op")
			switch res.Len() {
			case 0:
				return nil
			case 1:
				// methods returning *Logger return the receiver; others zero
				if len(args) > 0 && fn.Signature.Recv() != nil && types.Identical(res.At(0).Type(), fn.Signature.Recv().Type()) {
					return args[0]
				}
				return zero(res.At(0).Type())
			}
			return zero(res)
		}
	}
	return nil
}

func recvNamed(t types.Type) *types.Named {
	if p, ok := t.(*types.Pointer); ok {
		t = p.Elem()
	}
	n, _ := t.(*types.Named)
	return n
}
