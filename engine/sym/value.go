// Package sym is a symbolic interpreter for go/ssa. Its instruction semantics
// follow golang.org/x/tools/go/ssa/interp (BSD licence, The Go Authors); the
// symbolic layer, ordered maps, scheduler, lazy package initialisation and
// exploration machinery are specific to this project.
package sym

import (
	"bytes"
	"fmt"
	"go/types"
	"strings"
	"unicode/utf8"
	"unsafe"

	"golang.org/x/tools/go/ssa"

	"verif/engine/smt"
)

// Values are boxed in the empty interface. Dynamic types:
//   bool | *smt.Term(Bool)
//   int..uintptr | *smt.Term(BV w)
//   float32 (concrete only) | float64 | *smt.Term(FP64)
//   complex64/128 (concrete only)
//   string | *symStr
//   *omap, *vchan, []value, iface, structure, array, *value,
//   *ssa.Function, *ssa.Builtin, *closure, tuple, iter, unsafePtr, **deferred
type value interface{}

type tuple []value
type array []value
type structure []value

type iface struct {
	t types.Type // nil for nil interface
	v value
}

type closure struct {
	Fn  *ssa.Function
	Env []value
}

type bad struct{}

// unsafePtr boxes a pointer that went through unsafe.Pointer.
type unsafePtr struct{ p value }

// symSlice is an opaque slice whose length is symbolic and whose elements
// cannot be accessed (rt.OpaqueBytes); only len/cap and passing it on work.
type symSlice struct{ n *smt.Term }

// symStr is a string of concrete length whose bytes may be symbolic
// (each element is uint8 or *smt.Term of sort BV8).
type symStr struct{ b []value }

type iter interface {
	next(i *interpreter) tuple
}

func isSym(v value) bool {
	_, ok := v.(*smt.Term)
	return ok
}

func basicKind(t types.Type) (types.BasicKind, bool) {
	b, ok := t.Underlying().(*types.Basic)
	if !ok {
		return 0, false
	}
	return b.Kind(), true
}

// intInfo returns bit width and signedness for an integer basic kind.
func intInfo(k types.BasicKind) (w int, signed bool, ok bool) {
	switch k {
	case types.Int, types.Int64, types.UntypedInt:
		return 64, true, true
	case types.Int8:
		return 8, true, true
	case types.Int16:
		return 16, true, true
	case types.Int32, types.UntypedRune:
		return 32, true, true
	case types.Uint, types.Uint64, types.Uintptr:
		return 64, false, true
	case types.Uint8:
		return 8, false, true
	case types.Uint16:
		return 16, false, true
	case types.Uint32:
		return 32, false, true
	}
	return 0, false, false
}

// bitsOf returns the raw bits of a concrete integer/bool value.
func bitsOf(x value) (uint64, bool) {
	switch x := x.(type) {
	case bool:
		if x {
			return 1, true
		}
		return 0, true
	case int:
		return uint64(x), true
	case int8:
		return uint64(x), true
	case int16:
		return uint64(x), true
	case int32:
		return uint64(x), true
	case int64:
		return uint64(x), true
	case uint:
		return uint64(x), true
	case uint8:
		return uint64(x), true
	case uint16:
		return uint64(x), true
	case uint32:
		return uint64(x), true
	case uint64:
		return x, true
	case uintptr:
		return uint64(x), true
	}
	return 0, false
}

// fromBits builds the concrete Go value of basic kind k from raw bits.
func fromBits(k types.BasicKind, b uint64) value {
	switch k {
	case types.Bool, types.UntypedBool:
		return b != 0
	case types.Int, types.UntypedInt:
		return int(b)
	case types.Int8:
		return int8(b)
	case types.Int16:
		return int16(b)
	case types.Int32, types.UntypedRune:
		return int32(b)
	case types.Int64:
		return int64(b)
	case types.Uint:
		return uint(b)
	case types.Uint8:
		return uint8(b)
	case types.Uint16:
		return uint16(b)
	case types.Uint32:
		return uint32(b)
	case types.Uint64:
		return b
	case types.Uintptr:
		return uintptr(b)
	}
	panic(fmt.Sprintf("fromBits: kind %v", k))
}

// termOf lifts a scalar value to a term (constants become literals).
func (i *interpreter) termOf(x value) *smt.Term {
	switch x := x.(type) {
	case *smt.Term:
		return x
	case bool:
		return i.ctx.BoolC(x)
	case int:
		return i.ctx.BVC(uint64(x), 64)
	case int8:
		return i.ctx.BVC(uint64(x), 8)
	case int16:
		return i.ctx.BVC(uint64(x), 16)
	case int32:
		return i.ctx.BVC(uint64(x), 32)
	case int64:
		return i.ctx.BVC(uint64(x), 64)
	case uint:
		return i.ctx.BVC(uint64(x), 64)
	case uint8:
		return i.ctx.BVC(uint64(x), 8)
	case uint16:
		return i.ctx.BVC(uint64(x), 16)
	case uint32:
		return i.ctx.BVC(uint64(x), 32)
	case uint64:
		return i.ctx.BVC(x, 64)
	case uintptr:
		return i.ctx.BVC(uint64(x), 64)
	case float64:
		return i.ctx.FPC(x)
	}
	panic(fmt.Sprintf("termOf: %T", x))
}

// lower turns a constant term back into the native value of kind k.
func lower(k types.BasicKind, t *smt.Term) value {
	if !t.IsConst() {
		return t
	}
	switch t.Sort.K {
	case smt.KFP:
		return t.Float()
	default:
		return fromBits(k, t.C)
	}
}

func lowerBool(t *smt.Term) value {
	if t.IsConst() {
		return t.C == 1
	}
	return t
}

// ---- strings ----

func strLen(x value) int {
	switch x := x.(type) {
	case string:
		return len(x)
	case *symStr:
		return len(x.b)
	}
	panic(fmt.Sprintf("strLen: %T", x))
}

func strBytes(x value) []value {
	switch x := x.(type) {
	case string:
		r := make([]value, len(x))
		for i := 0; i < len(x); i++ {
			r[i] = x[i]
		}
		return r
	case *symStr:
		r := make([]value, len(x.b))
		copy(r, x.b)
		return r
	}
	panic(fmt.Sprintf("strBytes: %T", x))
}

// mkStr builds a string value from bytes, native when all bytes are concrete.
func mkStr(b []value) value {
	conc := true
	for _, e := range b {
		if _, ok := e.(uint8); !ok {
			conc = false
			break
		}
	}
	if conc {
		bs := make([]byte, len(b))
		for i, e := range b {
			bs[i] = e.(uint8)
		}
		return string(bs)
	}
	c := make([]value, len(b))
	copy(c, b)
	return &symStr{b: c}
}

// strEq builds equality of two strings.
func (i *interpreter) strEq(x, y value) value {
	if xs, ok := x.(string); ok {
		if ys, ok := y.(string); ok {
			return xs == ys
		}
	}
	if strLen(x) != strLen(y) {
		return false
	}
	xb, yb := strBytes(x), strBytes(y)
	r := i.ctx.True
	for k := range xb {
		r = i.ctx.And(r, i.ctx.Eq(i.termOf(xb[k]), i.termOf(yb[k])))
	}
	return lowerBool(r)
}

// strLess builds x < y (bytewise lexicographic, as Go compares strings).
func (i *interpreter) strLess(x, y value) value {
	if xs, ok := x.(string); ok {
		if ys, ok := y.(string); ok {
			return xs < ys
		}
	}
	xb, yb := strBytes(x), strBytes(y)
	n := len(xb)
	if len(yb) < n {
		n = len(yb)
	}
	// from the end: less_k = x[k]<y[k] || (x[k]==y[k] && less_{k+1}); base: len(x) < len(y)
	r := i.ctx.BoolC(len(xb) < len(yb))
	for k := n - 1; k >= 0; k-- {
		a, b := i.termOf(xb[k]), i.termOf(yb[k])
		r = i.ctx.Or(i.ctx.BVCmp(smt.OpULt, a, b), i.ctx.And(i.ctx.Eq(a, b), r))
	}
	return lowerBool(r)
}

// ---- zero / load / store ----

func zero(t types.Type) value {
	switch t := t.(type) {
	case *types.Basic:
		if t.Kind() == types.UntypedNil {
			panic("untyped nil has no zero value")
		}
		if t.Info()&types.IsUntyped != 0 {
			t = types.Default(t).(*types.Basic)
		}
		switch t.Kind() {
		case types.Bool:
			return false
		case types.Int:
			return int(0)
		case types.Int8:
			return int8(0)
		case types.Int16:
			return int16(0)
		case types.Int32:
			return int32(0)
		case types.Int64:
			return int64(0)
		case types.Uint:
			return uint(0)
		case types.Uint8:
			return uint8(0)
		case types.Uint16:
			return uint16(0)
		case types.Uint32:
			return uint32(0)
		case types.Uint64:
			return uint64(0)
		case types.Uintptr:
			return uintptr(0)
		case types.Float32:
			return float32(0)
		case types.Float64:
			return float64(0)
		case types.Complex64:
			return complex64(0)
		case types.Complex128:
			return complex128(0)
		case types.String:
			return ""
		case types.UnsafePointer:
			return unsafePtr{}
		default:
			panic(fmt.Sprint("zero for unexpected type:", t))
		}
	case *types.Pointer:
		return (*value)(nil)
	case *types.Array:
		a := make(array, t.Len())
		for i := range a {
			a[i] = zero(t.Elem())
		}
		return a
	case *types.Named:
		return zero(t.Underlying())
	case *types.Alias:
		return zero(types.Unalias(t))
	case *types.Interface:
		return iface{}
	case *types.Slice:
		return []value(nil)
	case *types.Struct:
		s := make(structure, t.NumFields())
		for i := range s {
			s[i] = zero(t.Field(i).Type())
		}
		return s
	case *types.Tuple:
		if t.Len() == 1 {
			return zero(t.At(0).Type())
		}
		s := make(tuple, t.Len())
		for i := range s {
			s[i] = zero(t.At(i).Type())
		}
		return s
	case *types.Chan:
		return (*vchan)(nil)
	case *types.Map:
		return (*omap)(nil)
	case *types.Signature:
		return (*ssa.Function)(nil)
	case *types.TypeParam:
		panic("zero: type parameter (generic body not instantiated)")
	}
	panic(fmt.Sprint("zero: unexpected ", t))
}

func load(T types.Type, addr *value) value {
	switch T := T.Underlying().(type) {
	case *types.Struct:
		v := (*addr).(structure)
		a := make(structure, len(v))
		for i := range a {
			a[i] = load(T.Field(i).Type(), &v[i])
		}
		return a
	case *types.Array:
		v := (*addr).(array)
		a := make(array, len(v))
		for i := range a {
			a[i] = load(T.Elem(), &v[i])
		}
		return a
	default:
		return *addr
	}
}

func store(T types.Type, addr *value, v value) {
	switch T := T.Underlying().(type) {
	case *types.Struct:
		lhs := (*addr).(structure)
		rhs := v.(structure)
		for i := range lhs {
			store(T.Field(i).Type(), &lhs[i], rhs[i])
		}
	case *types.Array:
		lhs := (*addr).(array)
		rhs := v.(array)
		for i := range lhs {
			store(T.Elem(), &lhs[i], rhs[i])
		}
	default:
		*addr = v
	}
}

// copyVal returns an unaliased copy of a (possibly aggregate) value.
func copyVal(v value) value {
	switch v := v.(type) {
	case structure:
		a := make(structure, len(v))
		for i := range v {
			a[i] = copyVal(v[i])
		}
		return a
	case array:
		a := make(array, len(v))
		for i := range v {
			a[i] = copyVal(v[i])
		}
		return a
	}
	return v
}

// ---- equality ----

func sameType(x, y types.Type) bool {
	if x == nil {
		return y == nil
	}
	return y != nil && types.Identical(x, y)
}

// equalsV returns x == y for type t as bool or *smt.Term.
func (i *interpreter) equalsV(t types.Type, x, y value) value {
	if tx, ok := x.(*smt.Term); ok {
		return i.symEq(tx, i.termOf(y))
	}
	if ty, ok := y.(*smt.Term); ok {
		return i.symEq(i.termOf(x), ty)
	}
	switch x := x.(type) {
	case bool:
		return x == y.(bool)
	case int:
		return x == y.(int)
	case int8:
		return x == y.(int8)
	case int16:
		return x == y.(int16)
	case int32:
		return x == y.(int32)
	case int64:
		return x == y.(int64)
	case uint:
		return x == y.(uint)
	case uint8:
		return x == y.(uint8)
	case uint16:
		return x == y.(uint16)
	case uint32:
		return x == y.(uint32)
	case uint64:
		return x == y.(uint64)
	case uintptr:
		return x == y.(uintptr)
	case float32:
		return x == y.(float32)
	case float64:
		return x == y.(float64)
	case complex64:
		return x == y.(complex64)
	case complex128:
		return x == y.(complex128)
	case string, *symStr:
		return i.strEq(x, y)
	case *value:
		return x == y.(*value)
	case *vchan:
		return x == y.(*vchan)
	case unsafePtr:
		return x.p == y.(unsafePtr).p
	case structure:
		ys := y.(structure)
		tS := t.Underlying().(*types.Struct)
		r := i.ctx.True
		for k := 0; k < tS.NumFields(); k++ {
			f := tS.Field(k)
			if f.Name() == "_" {
				continue
			}
			e := i.equalsV(f.Type(), x[k], ys[k])
			if b, ok := e.(bool); ok {
				if !b {
					return false
				}
				continue
			}
			r = i.ctx.And(r, e.(*smt.Term))
		}
		return lowerBool(r)
	case array:
		ya := y.(array)
		tE := t.Underlying().(*types.Array).Elem()
		r := i.ctx.True
		for k := range x {
			e := i.equalsV(tE, x[k], ya[k])
			if b, ok := e.(bool); ok {
				if !b {
					return false
				}
				continue
			}
			r = i.ctx.And(r, e.(*smt.Term))
		}
		return lowerBool(r)
	case iface:
		yi := y.(iface)
		if !sameType(x.t, yi.t) {
			return false
		}
		if x.t == nil {
			return true
		}
		if !types.Comparable(x.t) {
			panic(i.runtimeError("runtime error: comparing uncomparable type " + x.t.String()))
		}
		return i.equalsV(x.t, x.v, yi.v)
	case rtype:
		return types.Identical(x.t, y.(rtype).t)
	}
	panic(fmt.Sprintf("comparing uncomparable type %s (%T)", t, x))
}

func (i *interpreter) symEq(a, b *smt.Term) value {
	if a.Sort.K == smt.KFP {
		return lowerBool(i.ctx.FCmp(smt.OpFEq, a, b))
	}
	return lowerBool(i.ctx.Eq(a, b))
}

// rtype is kept for the tiny reflectlite emulation (TypeOf comparisons).
type rtype struct{ t types.Type }

// ---- ordered maps ----

// omap is an insertion-ordered association list with a hash index for
// concrete keys; lookups with symbolic keys compare against each stored key
// and fork on the equalities (interpreter.mapFind).
type omap struct {
	keyT  types.Type
	keys  []value
	vals  []value
	live  []bool
	n     int
	index map[string]int // canonical concrete key -> slot
	sym   int            // number of live entries whose key is not canonical
}

func makeMap(kt types.Type) *omap {
	return &omap{keyT: kt, index: map[string]int{}}
}

// canon returns a canonical string for a fully concrete key.
func canon(v value, sb *strings.Builder) bool {
	switch v := v.(type) {
	case bool, int, int8, int16, int32, int64, uint, uint8, uint16, uint32, uint64, uintptr, float32, float64, complex64, complex128:
		fmt.Fprintf(sb, "%T:%v;", v, v)
		return true
	case string:
		fmt.Fprintf(sb, "s%d:%s;", len(v), v)
		return true
	case *value:
		fmt.Fprintf(sb, "p%x;", uintptr(unsafe.Pointer(v)))
		return true
	case *vchan:
		fmt.Fprintf(sb, "c%x;", uintptr(unsafe.Pointer(v)))
		return true
	case unsafePtr:
		return canon(v.p, sb)
	case structure:
		sb.WriteString("{")
		for _, e := range v {
			if !canon(e, sb) {
				return false
			}
		}
		sb.WriteString("}")
		return true
	case array:
		sb.WriteString("[")
		for _, e := range v {
			if !canon(e, sb) {
				return false
			}
		}
		sb.WriteString("]")
		return true
	case iface:
		if v.t == nil {
			sb.WriteString("nil;")
			return true
		}
		sb.WriteString("i<" + v.t.String() + ">")
		return canon(v.v, sb)
	case rtype:
		sb.WriteString("rt<" + v.t.String() + ">")
		return true
	}
	return false
}

func canonKey(v value) (string, bool) {
	var sb strings.Builder
	ok := canon(v, &sb)
	return sb.String(), ok
}

func (m *omap) length() int {
	if m == nil {
		return 0
	}
	return m.n
}

// find returns the slot of key k or -1; may fork on symbolic equalities.
func (i *interpreter) mapFind(m *omap, k value) int {
	if m == nil {
		return -1
	}
	ck, conc := canonKey(k)
	if conc && m.sym == 0 {
		if s, ok := m.index[ck]; ok {
			return s
		}
		return -1
	}
	if conc {
		if s, ok := m.index[ck]; ok {
			return s
		}
	}
	for s := range m.keys {
		if !m.live[s] {
			continue
		}
		e := i.equalsV(m.keyT, m.keys[s], k)
		if b, ok := e.(bool); ok {
			if b {
				return s
			}
			continue
		}
		if i.branch(e.(*smt.Term), nil) {
			return s
		}
	}
	return -1
}

func (i *interpreter) mapLookup(m *omap, k value) (value, bool) {
	s := i.mapFind(m, k)
	if s < 0 {
		return nil, false
	}
	return m.vals[s], true
}

func (i *interpreter) mapInsert(m *omap, k, v value) {
	if m == nil {
		panic(i.runtimeError("assignment to entry in nil map"))
	}
	s := i.mapFind(m, k)
	if s >= 0 {
		m.vals[s] = v
		return
	}
	m.keys = append(m.keys, k)
	m.vals = append(m.vals, v)
	m.live = append(m.live, true)
	m.n++
	if ck, ok := canonKey(k); ok {
		m.index[ck] = len(m.keys) - 1
	} else {
		m.sym++
	}
}

func (i *interpreter) mapDelete(m *omap, k value) {
	s := i.mapFind(m, k)
	if s < 0 {
		return
	}
	m.live[s] = false
	m.n--
	if ck, ok := canonKey(m.keys[s]); ok {
		delete(m.index, ck)
	} else {
		m.sym--
	}
}

type mapIter struct {
	m    *omap
	pos  int
	end  int
	perm []int // optional visiting order (MapOrderNondet)
}

func (it *mapIter) next(i *interpreter) tuple {
	for it.m != nil && it.pos < it.end {
		s := it.pos
		if it.perm != nil {
			s = it.perm[it.pos]
		}
		it.pos++
		if it.m.live[s] {
			return tuple{true, it.m.keys[s], copyVal(it.m.vals[s])}
		}
	}
	return tuple{false, nil, nil}
}

type strIter struct {
	s   value
	pos int
}

func (it *strIter) next(i *interpreter) tuple {
	n := strLen(it.s)
	if it.pos >= n {
		return tuple{false, nil, nil}
	}
	switch s := it.s.(type) {
	case string:
		r, w := decodeRune(s[it.pos:])
		p := it.pos
		it.pos += w
		return tuple{true, p, r}
	case *symStr:
		b := s.b[it.pos]
		p := it.pos
		if c, ok := b.(uint8); ok && c < 0x80 {
			it.pos++
			return tuple{true, p, int32(c)}
		}
		// general case: UTF-8 decoding over (partly) symbolic bytes, exactly as utf8.DecodeRuneInString does it
		// (first byte classes and accept ranges of the Unicode standard, table 3-7); each class is one fork
		r, w := i.decodeRuneSym(s.b[it.pos:])
		it.pos += w
		return tuple{true, p, r}
	}
	panic("strIter")
}

// decodeRuneSym decodes the first rune of a byte sequence whose bytes may be symbolic. Forks once per UTF-8
// sequence class; returns the rune (concrete int32 or a 32-bit term) and its width.
func (i *interpreter) decodeRuneSym(bs []value) (value, int) {
	c := i.ctx
	bt := func(k int) *smt.Term {
		switch x := bs[k].(type) {
		case *smt.Term:
			return x
		case uint8:
			return c.BVC(uint64(x), 8)
		}
		panic(i.unsupported("decodeRuneSym: unexpected byte representation"))
	}
	in := func(t *smt.Term, lo, hi uint64) *smt.Term {
		return c.And(c.BVCmp(smt.OpULe, c.BVC(lo, 8), t), c.BVCmp(smt.OpULe, t, c.BVC(hi, 8)))
	}
	low := func(t *smt.Term, mask uint64) *smt.Term { return c.ZExt(c.BVBin(smt.OpBAnd, t, c.BVC(mask, 8)), 32) }
	shl := func(t *smt.Term, n uint64) *smt.Term { return c.BVBin(smt.OpShl, t, c.BVC(n, 32)) }
	or := func(a, b *smt.Term) *smt.Term { return c.BVBin(smt.OpBOr, a, b) }
	fr := i.curFrame
	b0 := bt(0)
	if i.branch(c.BVCmp(smt.OpULt, b0, c.BVC(0x80, 8)), fr) {
		return lowerRune(c.ZExt(b0, 32)), 1
	}
	n := len(bs)
	if n >= 2 {
		b1 := bt(1)
		if i.branch(c.And(in(b0, 0xC2, 0xDF), in(b1, 0x80, 0xBF)), fr) {
			return lowerRune(or(shl(low(b0, 0x1F), 6), low(b1, 0x3F))), 2
		}
		if n >= 3 {
			b2 := bt(2)
			second := c.OrN(
				c.And(c.Eq(b0, c.BVC(0xE0, 8)), in(b1, 0xA0, 0xBF)),
				c.And(in(b0, 0xE1, 0xEC), in(b1, 0x80, 0xBF)),
				c.And(c.Eq(b0, c.BVC(0xED, 8)), in(b1, 0x80, 0x9F)),
				c.And(in(b0, 0xEE, 0xEF), in(b1, 0x80, 0xBF)))
			if i.branch(c.And(second, in(b2, 0x80, 0xBF)), fr) {
				return lowerRune(or(or(shl(low(b0, 0x0F), 12), shl(low(b1, 0x3F), 6)), low(b2, 0x3F))), 3
			}
			if n >= 4 {
				b3 := bt(3)
				second4 := c.OrN(
					c.And(c.Eq(b0, c.BVC(0xF0, 8)), in(b1, 0x90, 0xBF)),
					c.And(in(b0, 0xF1, 0xF3), in(b1, 0x80, 0xBF)),
					c.And(c.Eq(b0, c.BVC(0xF4, 8)), in(b1, 0x80, 0x8F)))
				if i.branch(c.AndN(second4, in(b2, 0x80, 0xBF), in(b3, 0x80, 0xBF)), fr) {
					return lowerRune(or(or(or(shl(low(b0, 0x07), 18), shl(low(b1, 0x3F), 12)), shl(low(b2, 0x3F), 6)), low(b3, 0x3F))), 4
				}
			}
		}
	}
	return int32(utf8.RuneError), 1
}

func lowerRune(t *smt.Term) value {
	if t.IsConst() {
		return int32(t.C)
	}
	return t
}

func decodeRune(s string) (rune, int) {
	return utf8.DecodeRuneInString(s)
}

// ---- printing ----

func writeValue(buf *bytes.Buffer, v value) {
	switch v := v.(type) {
	case nil, bool, int, int8, int16, int32, int64, uint, uint8, uint16, uint32, uint64, uintptr, float32, float64, complex64, complex128, string:
		fmt.Fprintf(buf, "%v", v)
	case *smt.Term:
		fmt.Fprintf(buf, "<sym %s>", smt.Ref(v))
	case *symStr:
		buf.WriteString("<symstr")
		for _, b := range v.b {
			buf.WriteByte(' ')
			writeValue(buf, b)
		}
		buf.WriteString(">")
	case *omap:
		buf.WriteString("map[")
		if v != nil {
			sep := ""
			for s := range v.keys {
				if v.live[s] {
					buf.WriteString(sep)
					sep = " "
					writeValue(buf, v.keys[s])
					buf.WriteString(":")
					writeValue(buf, v.vals[s])
				}
			}
		}
		buf.WriteString("]")
	case *vchan:
		fmt.Fprintf(buf, "chan(%p)", v)
	case *value:
		if v == nil {
			buf.WriteString("<nil>")
		} else {
			fmt.Fprintf(buf, "%p", v)
		}
	case iface:
		if v.t == nil {
			buf.WriteString("<nil>")
			return
		}
		fmt.Fprintf(buf, "(%s, ", v.t)
		writeValue(buf, v.v)
		buf.WriteString(")")
	case structure:
		buf.WriteString("{")
		for i, e := range v {
			if i > 0 {
				buf.WriteString(" ")
			}
			writeValue(buf, e)
		}
		buf.WriteString("}")
	case array:
		buf.WriteString("[")
		for i, e := range v {
			if i > 0 {
				buf.WriteString(" ")
			}
			writeValue(buf, e)
		}
		buf.WriteString("]")
	case []value:
		buf.WriteString("[")
		for i, e := range v {
			if i > 0 {
				buf.WriteString(" ")
			}
			writeValue(buf, e)
		}
		buf.WriteString("]")
	case *ssa.Function, *ssa.Builtin, *closure:
		fmt.Fprintf(buf, "%p", v)
	case tuple:
		buf.WriteString("(")
		for i, e := range v {
			if i > 0 {
				buf.WriteString(", ")
			}
			writeValue(buf, e)
		}
		buf.WriteString(")")
	default:
		fmt.Fprintf(buf, "<%T>", v)
	}
}

func toString(v value) string {
	var b bytes.Buffer
	writeValue(&b, v)
	return b.String()
}
