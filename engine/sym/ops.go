package sym

import (
	"fmt"
	"go/constant"
	"go/token"
	"go/types"
	"math"

	"golang.org/x/tools/go/ssa"

	"verif/engine/smt"
)

// targetPanic is a panic of the interpreted program.
type targetPanic struct {
	v    value
	site string
	rt   bool // raised by the runtime (nil deref, bounds, ...) rather than panic()
	stack []string
}

func (p *targetPanic) String() string { return toString(p.v) }

func constValue(c *ssa.Const) value {
	if c.Value == nil {
		return zero(c.Type())
	}
	if t, ok := c.Type().Underlying().(*types.Basic); ok {
		switch t.Kind() {
		case types.Bool, types.UntypedBool:
			return constant.BoolVal(c.Value)
		case types.Int, types.UntypedInt:
			return int(c.Int64())
		case types.Int8:
			return int8(c.Int64())
		case types.Int16:
			return int16(c.Int64())
		case types.Int32, types.UntypedRune:
			return int32(c.Int64())
		case types.Int64:
			return c.Int64()
		case types.Uint:
			return uint(c.Uint64())
		case types.Uint8:
			return uint8(c.Uint64())
		case types.Uint16:
			return uint16(c.Uint64())
		case types.Uint32:
			return uint32(c.Uint64())
		case types.Uint64:
			return c.Uint64()
		case types.Uintptr:
			return uintptr(c.Uint64())
		case types.Float32:
			return float32(c.Float64())
		case types.Float64, types.UntypedFloat:
			return c.Float64()
		case types.Complex64:
			return complex64(c.Complex128())
		case types.Complex128, types.UntypedComplex:
			return c.Complex128()
		case types.String, types.UntypedString:
			if c.Value.Kind() == constant.String {
				return constant.StringVal(c.Value)
			}
			return string(rune(c.Int64()))
		}
	}
	panic(fmt.Sprintf("constValue: %s", c))
}

func asInt64(x value) int64 {
	switch x := x.(type) {
	case int:
		return int64(x)
	case int8:
		return int64(x)
	case int16:
		return int64(x)
	case int32:
		return int64(x)
	case int64:
		return x
	case uint:
		return int64(x)
	case uint8:
		return int64(x)
	case uint16:
		return int64(x)
	case uint32:
		return int64(x)
	case uint64:
		return int64(x)
	case uintptr:
		return int64(x)
	}
	panic(fmt.Sprintf("cannot convert %T to int64", x))
}

func kindOfValue(x value) (types.BasicKind, bool) {
	switch x.(type) {
	case bool:
		return types.Bool, true
	case int:
		return types.Int, true
	case int8:
		return types.Int8, true
	case int16:
		return types.Int16, true
	case int32:
		return types.Int32, true
	case int64:
		return types.Int64, true
	case uint:
		return types.Uint, true
	case uint8:
		return types.Uint8, true
	case uint16:
		return types.Uint16, true
	case uint32:
		return types.Uint32, true
	case uint64:
		return types.Uint64, true
	case uintptr:
		return types.Uintptr, true
	case float32:
		return types.Float32, true
	case float64:
		return types.Float64, true
	case complex64:
		return types.Complex64, true
	case complex128:
		return types.Complex128, true
	case string, *symStr:
		return types.String, true
	}
	return 0, false
}

func normKind(k types.BasicKind) types.BasicKind {
	switch k {
	case types.UntypedInt:
		return types.Int
	case types.UntypedRune:
		return types.Int32
	case types.UntypedFloat:
		return types.Float64
	case types.UntypedBool:
		return types.Bool
	case types.UntypedString:
		return types.String
	}
	return k
}

// kindFor finds the basic kind of an operand, preferring the dynamic type.
func kindFor(x value, t types.Type) types.BasicKind {
	if k, ok := kindOfValue(x); ok {
		return k
	}
	if t != nil {
		if k, ok := basicKind(t); ok {
			return normKind(k)
		}
	}
	if tm, ok := x.(*smt.Term); ok {
		switch tm.Sort.K {
		case smt.KBool:
			return types.Bool
		case smt.KFP:
			return types.Float64
		}
	}
	panic(fmt.Sprintf("kindFor: %T %v", x, t))
}

var intOps = map[token.Token]smt.Op{
	token.ADD: smt.OpAdd, token.SUB: smt.OpSub, token.MUL: smt.OpMul,
	token.AND: smt.OpBAnd, token.OR: smt.OpBOr, token.XOR: smt.OpBXor,
}

func (i *interpreter) binop(op token.Token, tx, ty types.Type, x, y value) value {
	switch op {
	case token.EQL:
		return i.eqnil(tx, x, y)
	case token.NEQ:
		return i.notV(i.eqnil(tx, x, y))
	}
	k := kindFor(x, tx)
	switch {
	case k == types.String:
		switch op {
		case token.ADD:
			if xs, ok := x.(string); ok {
				if ys, ok := y.(string); ok {
					return xs + ys
				}
			}
			return mkStr(append(strBytes(x), strBytes(y)...))
		case token.LSS:
			return i.strLess(x, y)
		case token.GTR:
			return i.strLess(y, x)
		case token.LEQ:
			return i.notV(i.strLess(y, x))
		case token.GEQ:
			return i.notV(i.strLess(x, y))
		}
	case k == types.Float64:
		return i.floatBinop(op, x, y)
	case k == types.Float32:
		xf, yf := x.(float32), y.(float32)
		switch op {
		case token.ADD:
			return xf + yf
		case token.SUB:
			return xf - yf
		case token.MUL:
			return xf * yf
		case token.QUO:
			return xf / yf
		case token.LSS:
			return xf < yf
		case token.LEQ:
			return xf <= yf
		case token.GTR:
			return xf > yf
		case token.GEQ:
			return xf >= yf
		}
	case k == types.Complex128:
		xc, yc := x.(complex128), y.(complex128)
		switch op {
		case token.ADD:
			return xc + yc
		case token.SUB:
			return xc - yc
		case token.MUL:
			return xc * yc
		case token.QUO:
			return xc / yc
		}
	case k == types.Complex64:
		xc, yc := x.(complex64), y.(complex64)
		switch op {
		case token.ADD:
			return xc + yc
		case token.SUB:
			return xc - yc
		case token.MUL:
			return xc * yc
		case token.QUO:
			return xc / yc
		}
	case k == types.Bool:
		// only reached for AND/OR on booleans produced by rt combinators
	default:
		return i.intBinop(op, k, ty, x, y)
	}
	panic(fmt.Sprintf("invalid binary op: %T %s %T", x, op, y))
}

func (i *interpreter) floatBinop(op token.Token, x, y value) value {
	xf, xc := x.(float64)
	yf, yc := y.(float64)
	if xc && yc {
		switch op {
		case token.ADD:
			return xf + yf
		case token.SUB:
			return xf - yf
		case token.MUL:
			return xf * yf
		case token.QUO:
			return xf / yf
		case token.LSS:
			return xf < yf
		case token.LEQ:
			return xf <= yf
		case token.GTR:
			return xf > yf
		case token.GEQ:
			return xf >= yf
		}
		panic("float op " + op.String())
	}
	a, b := i.termOf(x), i.termOf(y)
	c := i.ctx
	switch op {
	case token.ADD:
		return lower(types.Float64, c.FBin(smt.OpFAdd, a, b))
	case token.SUB:
		return lower(types.Float64, c.FBin(smt.OpFSub, a, b))
	case token.MUL:
		return lower(types.Float64, c.FBin(smt.OpFMul, a, b))
	case token.QUO:
		return lower(types.Float64, c.FBin(smt.OpFDiv, a, b))
	case token.LSS:
		return lowerBool(c.FCmp(smt.OpFLt, a, b))
	case token.LEQ:
		return lowerBool(c.FCmp(smt.OpFLe, a, b))
	case token.GTR:
		return lowerBool(c.FCmp(smt.OpFLt, b, a))
	case token.GEQ:
		return lowerBool(c.FCmp(smt.OpFLe, b, a))
	}
	panic("float op " + op.String())
}

func (i *interpreter) intBinop(op token.Token, k types.BasicKind, ty types.Type, x, y value) value {
	w, signed, ok := intInfo(k)
	if !ok {
		panic(fmt.Sprintf("intBinop on kind %v (%T %s %T)", k, x, op, y))
	}
	c := i.ctx
	switch op {
	case token.SHL, token.SHR:
		ky := kindFor(y, ty)
		wy, sy, _ := intInfo(ky)
		if yb, conc := bitsOf(y); conc {
			if sy && smt.Sext(yb, wy) < 0 {
				panic(i.runtimeError("negative shift amount"))
			}
			if xb, xc := bitsOf(x); xc {
				var r uint64
				switch {
				case op == token.SHL:
					r, _ = smt.FoldBV(smt.OpShl, xb&smt.Mask(w), yb, w)
				case signed:
					r, _ = smt.FoldBV(smt.OpAShr, xb&smt.Mask(w), yb, w)
				default:
					r, _ = smt.FoldBV(smt.OpLShr, xb&smt.Mask(w), yb, w)
				}
				return fromBits(k, r)
			}
		}
		yt := i.termOf(y)
		if sy && !yt.IsConst() {
			if i.branch(c.BVCmp(smt.OpSLt, yt, c.BVC(0, wy)), nil) {
				panic(i.runtimeError("negative shift amount"))
			}
		}
		// bring the shift amount to width w, saturating at w
		var amt *smt.Term
		if wy > w {
			big := c.BVCmp(smt.OpULe, c.BVC(uint64(w), wy), yt)
			amt = c.Ite(big, c.BVC(uint64(w), w), c.Extract(yt, w-1, 0))
		} else {
			amt = c.ZExt(yt, w)
		}
		xt := i.termOf(x)
		sop := smt.OpShl
		if op == token.SHR {
			sop = smt.OpLShr
			if signed {
				sop = smt.OpAShr
			}
		}
		return lower(k, c.BVBin(sop, xt, amt))
	}

	xb, xc := bitsOf(x)
	yb, yc := bitsOf(y)
	if xc && yc {
		xb &= smt.Mask(w)
		yb &= smt.Mask(w)
		var r uint64
		switch op {
		case token.ADD:
			r = xb + yb
		case token.SUB:
			r = xb - yb
		case token.MUL:
			r = xb * yb
		case token.QUO, token.REM:
			if yb == 0 {
				panic(i.runtimeError("integer divide by zero"))
			}
			sop := smt.OpUDiv
			switch {
			case op == token.QUO && signed:
				sop = smt.OpSDiv
			case op == token.REM && signed:
				sop = smt.OpSRem
			case op == token.REM:
				sop = smt.OpURem
			}
			r, _ = smt.FoldBV(sop, xb, yb, w)
		case token.AND:
			r = xb & yb
		case token.OR:
			r = xb | yb
		case token.XOR:
			r = xb ^ yb
		case token.AND_NOT:
			r = xb &^ yb
		case token.LSS, token.LEQ, token.GTR, token.GEQ:
			var lt, eq bool
			if signed {
				lt, eq = smt.Sext(xb, w) < smt.Sext(yb, w), xb == yb
			} else {
				lt, eq = xb < yb, xb == yb
			}
			switch op {
			case token.LSS:
				return lt
			case token.LEQ:
				return lt || eq
			case token.GTR:
				return !lt && !eq
			default:
				return !lt
			}
		default:
			panic("int op " + op.String())
		}
		return fromBits(k, r&smt.Mask(w))
	}
	a, b := i.termOf(x), i.termOf(y)
	switch op {
	case token.ADD, token.SUB, token.MUL, token.AND, token.OR, token.XOR:
		return lower(k, c.BVBin(intOps[op], a, b))
	case token.AND_NOT:
		return lower(k, c.BVBin(smt.OpBAnd, a, c.BVNot(b)))
	case token.QUO, token.REM:
		if b.IsConst() {
			if b.C == 0 {
				panic(i.runtimeError("integer divide by zero"))
			}
		} else if i.branch(c.Eq(b, c.BVC(0, w)), nil) {
			panic(i.runtimeError("integer divide by zero"))
		}
		sop := smt.OpUDiv
		switch {
		case op == token.QUO && signed:
			sop = smt.OpSDiv
		case op == token.REM && signed:
			sop = smt.OpSRem
		case op == token.REM:
			sop = smt.OpURem
		}
		return lower(k, c.BVBin(sop, a, b))
	case token.LSS:
		if signed {
			return lowerBool(c.BVCmp(smt.OpSLt, a, b))
		}
		return lowerBool(c.BVCmp(smt.OpULt, a, b))
	case token.LEQ:
		if signed {
			return lowerBool(c.BVCmp(smt.OpSLe, a, b))
		}
		return lowerBool(c.BVCmp(smt.OpULe, a, b))
	case token.GTR:
		if signed {
			return lowerBool(c.BVCmp(smt.OpSLt, b, a))
		}
		return lowerBool(c.BVCmp(smt.OpULt, b, a))
	case token.GEQ:
		if signed {
			return lowerBool(c.BVCmp(smt.OpSLe, b, a))
		}
		return lowerBool(c.BVCmp(smt.OpULe, b, a))
	}
	panic("int op " + op.String())
}

func (i *interpreter) notV(v value) value {
	if b, ok := v.(bool); ok {
		return !b
	}
	return lowerBool(i.ctx.Not(v.(*smt.Term)))
}

func (i *interpreter) andV(a, b value) value {
	return lowerBool(i.ctx.And(i.termOf(a), i.termOf(b)))
}

func (i *interpreter) orV(a, b value) value {
	return lowerBool(i.ctx.Or(i.termOf(a), i.termOf(b)))
}

// eqnil is x == y where t may be a reference type compared with nil.
func (i *interpreter) eqnil(t types.Type, x, y value) value {
	switch t.Underlying().(type) {
	case *types.Map, *types.Signature, *types.Slice:
		switch x := x.(type) {
		case *omap:
			return (x != nil) == (y.(*omap) != nil)
		case *ssa.Function:
			switch y := y.(type) {
			case *ssa.Function:
				return (x != nil) == (y != nil)
			case *closure:
				return x != nil
			}
		case *closure:
			if yf, ok := y.(*ssa.Function); ok {
				return yf != nil
			}
			return true
		case []value:
			if _, ok := y.(*symSlice); ok {
				return x != nil
			}
			return (x != nil) == (y.([]value) != nil)
		case *symSlice:
			// an opaque buffer is never nil
			if ys, ok := y.([]value); ok {
				return ys != nil
			}
			return true
		}
		panic(fmt.Sprintf("eqnil(%s): illegal dynamic type: %T", t, x))
	}
	return i.equalsV(t, x, y)
}

func (i *interpreter) unop(instr *ssa.UnOp, x value) value {
	switch instr.Op {
	case token.ARROW:
		return i.chanRecv(x.(*vchan), instr.X.Type().Underlying().(*types.Chan).Elem(), instr.CommaOk)
	case token.SUB:
		switch x := x.(type) {
		case float32:
			return -x
		case float64:
			return -x
		case complex64:
			return -x
		case complex128:
			return -x
		case *smt.Term:
			k := kindFor(x, instr.X.Type())
			if x.Sort.K == smt.KFP {
				return lower(k, i.ctx.FNeg(x))
			}
			return lower(k, i.ctx.BVNeg(x))
		}
		k, _ := kindOfValue(x)
		w, _, ok := intInfo(k)
		if ok {
			b, _ := bitsOf(x)
			return fromBits(k, (-b)&smt.Mask(w))
		}
	case token.MUL:
		p := x.(*value)
		if p == nil {
			panic(i.nilDeref())
		}
		if i.race != nil {
			i.raceRead(mustDeref(instr.X.Type()), p)
		}
		return load(mustDeref(instr.X.Type()), p)
	case token.NOT:
		return i.notV(x)
	case token.XOR:
		if t, ok := x.(*smt.Term); ok {
			return lower(kindFor(x, instr.X.Type()), i.ctx.BVNot(t))
		}
		k, _ := kindOfValue(x)
		w, _, ok := intInfo(k)
		if ok {
			b, _ := bitsOf(x)
			return fromBits(k, (^b)&smt.Mask(w))
		}
	}
	panic(fmt.Sprintf("invalid unary op %s %T", instr.Op, x))
}

func mustDeref(t types.Type) types.Type {
	if p, ok := t.Underlying().(*types.Pointer); ok {
		return p.Elem()
	}
	panic(fmt.Sprintf("mustDeref: %v", t))
}

func (i *interpreter) typeAssert(instr *ssa.TypeAssert, itf iface) value {
	var v value
	ok := false
	if itf.t == nil {
		// fails
	} else if idst, isIface := instr.AssertedType.Underlying().(*types.Interface); isIface {
		v = itf
		meth, _ := types.MissingMethod(itf.t, idst, true)
		ok = meth == nil
	} else if types.Identical(itf.t, instr.AssertedType) {
		v = itf.v
		ok = true
	}
	if !ok {
		if !instr.CommaOk {
			// the message is only built on the failing, non-comma-ok path (it is expensive to render)
			if itf.t == nil {
				panic(i.runtimeError(fmt.Sprintf("interface conversion: interface is nil, not %s", instr.AssertedType)))
			}
			panic(i.runtimeError(fmt.Sprintf("interface conversion: interface is %s, not %s", itf.t, instr.AssertedType)))
		}
		return tuple{zero(instr.AssertedType), false}
	}
	if instr.CommaOk {
		return tuple{v, true}
	}
	return v
}

// conv implements ssa.Convert.
func (i *interpreter) conv(t_dst, t_src types.Type, x value) value {
	ut_src := t_src.Underlying()
	ut_dst := t_dst.Underlying()

	switch ut_src := ut_src.(type) {
	case *types.Pointer:
		if b, ok := ut_dst.(*types.Basic); ok && b.Kind() == types.UnsafePointer {
			return unsafePtr{p: x}
		}
	case *types.Slice:
		switch ut_src.Elem().Underlying().(*types.Basic).Kind() {
		case types.Byte:
			return mkStr(x.([]value))
		case types.Rune:
			xs := x.([]value)
			r := make([]rune, 0, len(xs))
			for k := range xs {
				rv, ok := xs[k].(rune)
				if !ok {
					panic(i.unsupported("string([]rune) with symbolic rune"))
				}
				r = append(r, rv)
			}
			return string(r)
		}
	case *types.Basic:
		if ut_src.Kind() == types.UnsafePointer {
			up := x.(unsafePtr)
			switch d := ut_dst.(type) {
			case *types.Pointer:
				if up.p == nil {
					return (*value)(nil)
				}
				if p, ok := up.p.(*value); ok {
					return p
				}
				panic(i.unsupported("unsafe.Pointer -> pointer of boxed non-pointer"))
			case *types.Basic:
				if d.Kind() == types.UnsafePointer {
					return x
				}
				if d.Kind() == types.Uintptr {
					if up.p == nil {
						return uintptr(0)
					}
					if p, ok := up.p.(*value); ok && p == nil {
						return uintptr(0)
					}
					panic(i.unsupported("unsafe.Pointer -> uintptr"))
				}
			}
			break
		}
		dstB, dstIsBasic := ut_dst.(*types.Basic)
		if dstIsBasic && dstB.Kind() == types.UnsafePointer {
			if ut_src.Kind() == types.Uintptr {
				if b, ok := bitsOf(x); ok && b == 0 {
					return unsafePtr{}
				}
			}
			panic(i.unsupported("uintptr -> unsafe.Pointer"))
		}
		// string source
		if ut_src.Info()&types.IsString != 0 {
			switch d := ut_dst.(type) {
			case *types.Slice:
				switch d.Elem().Underlying().(*types.Basic).Kind() {
				case types.Byte:
					return strBytes(x)
				case types.Rune:
					s, ok := x.(string)
					if !ok {
						panic(i.unsupported("[]rune(symbolic string)"))
					}
					var res []value
					for _, r := range []rune(s) {
						res = append(res, r)
					}
					return res
				}
			case *types.Basic:
				if d.Kind() == types.String {
					return x
				}
			}
			break
		}
		if !dstIsBasic {
			break
		}
		// integer -> string
		if ut_src.Info()&types.IsInteger != 0 && dstB.Kind() == types.String {
			if _, ok := x.(*smt.Term); ok {
				panic(i.unsupported("string(symbolic integer)"))
			}
			_, signed, _ := intInfo(normKind(ut_src.Kind()))
			if signed {
				return string(rune(asInt64(x)))
			}
			b, _ := bitsOf(x)
			if b > 0x10FFFF {
				return "�"
			}
			return string(rune(b))
		}
		if ut_src.Info()&types.IsComplex != 0 {
			var c complex128
			switch xv := x.(type) {
			case complex64:
				c = complex128(xv)
			case complex128:
				c = xv
			}
			if dstB.Kind() == types.Complex64 {
				return complex64(c)
			}
			return c
		}
		if ut_src.Info()&types.IsNumeric != 0 || ut_src.Info()&types.IsBoolean != 0 {
			return i.numConv(normKind(dstB.Kind()), normKind(ut_src.Kind()), x)
		}
	}
	panic(fmt.Sprintf("unsupported conversion: %s  -> %s, dynamic type %T", t_src, t_dst, x))
}

// numConv converts between numeric kinds with Go's semantics.
func (i *interpreter) numConv(dst, src types.BasicKind, x value) value {
	if dst == types.Bool && src == types.Bool {
		return x
	}
	c := i.ctx
	sw, ssigned, sint := intInfo(src)
	dw, dsigned, dint := intInfo(dst)
	if t, ok := x.(*smt.Term); ok {
		switch {
		case sint && dint:
			var r *smt.Term
			switch {
			case dw < sw:
				r = c.Extract(t, dw-1, 0)
			case dw == sw:
				r = t
			case ssigned:
				r = c.SExt(t, dw)
			default:
				r = c.ZExt(t, dw)
			}
			return lower(dst, r)
		case sint && dst == types.Float64:
			return lower(dst, c.IntToF(t, ssigned))
		case src == types.Float64 && dint:
			return lower(dst, c.FToInt(t, dw, dsigned))
		case src == types.Float64 && dst == types.Float64:
			return t
		}
		panic(i.unsupported(fmt.Sprintf("symbolic numeric conversion %v -> %v", src, dst)))
	}
	// concrete
	switch {
	case sint && dint:
		b, _ := bitsOf(x)
		if ssigned {
			b = uint64(smt.Sext(b&smt.Mask(sw), sw))
		} else {
			b &= smt.Mask(sw)
		}
		return fromBits(dst, b&smt.Mask(dw))
	case sint:
		b, _ := bitsOf(x)
		var f float64
		if ssigned {
			f = float64(smt.Sext(b&smt.Mask(sw), sw))
		} else {
			f = float64(b & smt.Mask(sw))
		}
		if dst == types.Float32 {
			if ssigned {
				return float32(smt.Sext(b&smt.Mask(sw), sw))
			}
			return float32(b & smt.Mask(sw))
		}
		return f
	}
	var f float64
	switch xv := x.(type) {
	case float32:
		f = float64(xv)
	case float64:
		f = xv
	default:
		panic(fmt.Sprintf("numConv: %T", x))
	}
	switch dst {
	case types.Float32:
		return float32(f)
	case types.Float64:
		return f
	}
	if dint {
		// match the compiled program on amd64 for in-range values
		switch dst {
		case types.Int:
			return int(f)
		case types.Int8:
			return int8(f)
		case types.Int16:
			return int16(f)
		case types.Int32:
			return int32(f)
		case types.Int64:
			return int64(f)
		case types.Uint:
			return uint(f)
		case types.Uint8:
			return uint8(f)
		case types.Uint16:
			return uint16(f)
		case types.Uint32:
			return uint32(f)
		case types.Uint64:
			return uint64(f)
		case types.Uintptr:
			return uintptr(f)
		}
	}
	panic(fmt.Sprintf("numConv %v -> %v", src, dst))
}

func (i *interpreter) sliceToArrayPointer(t_dst, t_src types.Type, x value) value {
	if _, ok := t_src.Underlying().(*types.Slice); ok {
		if ptr, ok := t_dst.Underlying().(*types.Pointer); ok {
			if arr, ok := ptr.Elem().Underlying().(*types.Array); ok {
				xs := x.([]value)
				if arr.Len() > int64(len(xs)) {
					panic(i.runtimeError("cannot convert slice with length to array or pointer to array: length too short"))
				}
				if xs == nil {
					return zero(t_dst)
				}
				v := value(array(xs[:arr.Len()]))
				return &v
			}
		}
	}
	panic(fmt.Sprintf("unsupported conversion: %s  -> %s, dynamic type %T", t_src, t_dst, x))
}

// fpBits reinterprets a float64 as its IEEE bits. For a symbolic float this
// introduces a fresh bit-vector b constrained by to_fp(b) = x (so the NaN
// payload is unconstrained, which over-approximates the machine).
func (i *interpreter) fpBits(x value) value {
	if f, ok := x.(float64); ok {
		return math.Float64bits(f)
	}
	t := x.(*smt.Term)
	if t.Op == smt.OpBToF {
		return lower(types.Uint64, t.Args[0])
	}
	b := i.fresh("fbits", smt.BV(64))
	i.assumeInternal(i.ctx.Eq(i.ctx.BitsToF(b), t))
	return b
}

func (i *interpreter) fpFromBits(x value) value {
	if b, ok := x.(uint64); ok {
		return math.Float64frombits(b)
	}
	return lower(types.Float64, i.ctx.BitsToF(x.(*smt.Term)))
}
