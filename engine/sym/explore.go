package sym

import (
	"sync/atomic"
	"fmt"
	"go/types"
	"os"
	"runtime/debug"
	"sort"
	"strings"
	"sync"
	"time"
	"unsafe"

	"golang.org/x/tools/go/ssa"

	"verif/engine/smt"
)

// Decision is one entry of a path's decision vector.
type Decision struct {
	Val    uint64 `json:"v"`
	Forced bool   `json:"f,omitempty"`
}

// NondetRec records one rt.<Kind>(name) call of a path, in call order.
type NondetRec struct {
	Name  string      `json:"name"`
	Kind  string      `json:"kind"`
	Terms []*smt.Term `json:"-"`
	Len   int         `json:"len,omitempty"` // strings/bytes: chosen length
	Conc  []uint64    `json:"conc,omitempty"`
}

type obsRec struct {
	tag string
	v   value
}

type knownPred struct {
	id   string
	cond *smt.Term
}

// Violation is a counterexample found on one path.
type Violation struct {
	Kind      string // assert | panic | deadlock | store
	AssertID  string
	Site      string
	Msg       string
	Known     string // id of the known finding it falls under, "" otherwise
	Nondet    []ReplayVal
	Decisions []Decision
	Stack     []string
	Sched     []string
}

type ReplayVal struct {
	Name  string   `json:"name"`
	Kind  string   `json:"kind"`
	Bits  uint64   `json:"bits"`
	Bytes []uint64 `json:"bytes,omitempty"`
}

type PathResult struct {
	Outcome    string // completed | panic | pruned | unsupported | unwind | solver | steps | deadlock | engine
	Msg        string
	Violations []Violation
	Reached    map[string]int
	Observed   int
}

type interpreter struct {
	prog               *ssa.Program
	ex                 *Explorer
	ctx                *smt.Ctx
	solver             *smt.Solver
	globals            map[*ssa.Global]*value
	pkgInit            map[*ssa.Package]int
	inLazyInit         int
	fnInfos            map[*ssa.Function]*fnInfo
	runtimeErrorString types.Type
	curFrame           *frame
	curTask            *task
	depth              int
	steps              int64
	stepLimit          int64

	// path state
	pc        []*smt.Term
	prefix    []Decision
	trace     []Decision
	nfresh    int
	nondet    []NondetRec
	observes  []obsRec
	known     []knownPred
	soft      []*smt.Term
	spawned   []*spawnedCall
	viol      []Violation
	reached   map[string]int
	funcs     map[*ssa.Function]int
	stubs     map[string]bool
	bounds    map[string]bool
	chanSeq   int
	uf        map[int]int
	timeAdvances int
	livelock  bool
	panicStack []string
	pcHash    [2]uint64
	natives   map[*value]interface{}
	timers    map[*value]*vtimer
	timerList []*vtimer
	timerSeq  int
	clock     int64
	pcSet     map[int]bool
	keptUnknown int
	watch     map[*value]string
	watchHits []watchHit
	race      *raceState
	pools     map[*value][]value // sync.Pool free lists

	mapOrderNondet bool
	sched          *scheduler
	schedTrace     []string
}

// Config describes one obligation to explore.
type Config struct {
	Harness        *ssa.Function
	Params         map[string]int
	UnwindCap      int
	StepLimit      int64
	SolverTimeout  int // ms per query
	Workers        int
	MaxPaths       int
	MapOrderNondet bool
	Scheduler      bool
	KnownActive    map[string]bool // ids listed in known_findings.json for this obligation
	ExpectAsserts  []string
	SolverName     string
	SmtLog         string
	Deadline       time.Time
	Verbose        bool
	ConcLimit      int
	SampleCap      int
	MaxPreempt     int
	FeasMs         int // wall-clock cap of a feasibility (pruning) query; unknown = keep
}

type Explorer struct {
	cfg  Config
	prog *ssa.Program

	mu        sync.Mutex
	work      [][]Decision
	active    int
	cond      *sync.Cond
	Paths     int
	Outcomes  map[string]int
	Viol      []Violation
	Reached   map[string]int
	Funcs     map[string]int
	Stubs     map[string]bool
	Bounds    map[string]bool
	Inconcl   []string
	Decisions int
	Samples   []PathSample
	Stats     smt.Stats
	stop      bool
	seenViol  map[string]bool
	intrCache sync.Map
	noFork    bool
	qcache    sync.Map
	cacheHits atomic.Int64
	feasLimit time.Duration
	KeptUnknown int
	sizes     types.Sizes
}

// PathSample keeps a completed path's inputs/observations for translator validation.
type PathSample struct {
	Decisions []Decision
	Nondet    []ReplayVal
	Observes  []ObservedVal
	Outcome   string
}

type ObservedVal struct {
	Tag string
	Val string
}

func NewExplorer(prog *ssa.Program, cfg Config) *Explorer {
	if cfg.UnwindCap == 0 {
		cfg.UnwindCap = 64
	}
	if cfg.StepLimit == 0 {
		cfg.StepLimit = 20_000_000
	}
	if cfg.SolverTimeout == 0 {
		cfg.SolverTimeout = 20000
	}
	if cfg.Workers == 0 {
		cfg.Workers = 8
	}
	if cfg.MaxPaths == 0 {
		cfg.MaxPaths = 200000
	}
	if cfg.SolverName == "" {
		cfg.SolverName = "z3"
	}
	if cfg.ConcLimit == 0 {
		cfg.ConcLimit = 24
	}
	if cfg.FeasMs == 0 {
		cfg.FeasMs = 4000
	}
	e := &Explorer{cfg: cfg, prog: prog, Outcomes: map[string]int{}, Reached: map[string]int{}, Funcs: map[string]int{}, Stubs: map[string]bool{}, Bounds: map[string]bool{}, seenViol: map[string]bool{}}
	e.cond = sync.NewCond(&e.mu)
	e.sizes = types.SizesFor("gc", "amd64")
	e.feasLimit = time.Duration(cfg.FeasMs) * time.Millisecond
	return e
}

func (e *Explorer) Run() {
	e.work = [][]Decision{nil}
	var wg sync.WaitGroup
	for w := 0; w < e.cfg.Workers; w++ {
		wg.Add(1)
		go func(w int) {
			defer wg.Done()
			e.worker(w)
		}(w)
	}
	wg.Wait()
}

func (e *Explorer) sampleCap() int {
	if e.cfg.SampleCap > 0 {
		return e.cfg.SampleCap
	}
	return 60
}

func (e *Explorer) take() ([]Decision, bool) {
	e.mu.Lock()
	defer e.mu.Unlock()
	for {
		if e.stop {
			return nil, false
		}
		if len(e.work) > 0 {
			p := e.work[len(e.work)-1]
			e.work = e.work[:len(e.work)-1]
			e.active++
			return p, true
		}
		if e.active == 0 {
			e.cond.Broadcast()
			return nil, false
		}
		e.cond.Wait()
	}
}

func (e *Explorer) push(p []Decision) {
	if e.noFork {
		return
	}
	e.mu.Lock()
	e.work = append(e.work, p)
	e.mu.Unlock()
	e.cond.Signal()
}

func (e *Explorer) worker(w int) {
	ctx := smt.NewCtx()
	solver, err := smt.NewSolver(e.cfg.SolverName, ctx, e.cfg.SolverTimeout)
	if err != nil {
		e.mu.Lock()
		e.Inconcl = append(e.Inconcl, "cannot start solver: "+err.Error())
		e.stop = true
		e.mu.Unlock()
		e.cond.Broadcast()
		return
	}
	defer solver.Close()
	if e.cfg.SmtLog != "" && w == 0 {
		if f, err := os.Create(e.cfg.SmtLog); err == nil {
			defer f.Close()
			solver.Log = f
		}
	}
	fnInfos := map[*ssa.Function]*fnInfo{}
	for {
		prefix, ok := e.take()
		if !ok {
			break
		}
		i := &interpreter{prog: e.prog, ex: e, fnInfos: fnInfos, stepLimit: e.cfg.StepLimit}
		i.ctx = smt.NewCtx()
		solver.SetCtx(i.ctx)
		i.solver = solver
		res := i.runPath(prefix)
		e.mu.Lock()
		e.Paths++
		e.Outcomes[res.Outcome]++
		e.Decisions += len(i.trace)
		e.KeptUnknown += i.keptUnknown
		for k, v := range res.Reached {
			e.Reached[k] += v
		}
		for f, n := range i.funcs {
			e.Funcs[f.String()] = n
		}
		for s := range i.stubs {
			e.Stubs[s] = true
		}
		for s := range i.bounds {
			e.Bounds[s] = true
		}
		for _, v := range res.Violations {
			key := v.Kind + "|" + v.AssertID + "|" + v.Known + "|" + v.Site
			if !e.seenViol[key] {
				e.seenViol[key] = true
				e.Viol = append(e.Viol, v)
			}
		}
		switch res.Outcome {
		case "unsupported", "unwind", "solver", "steps", "engine":
			if len(e.Inconcl) < 20 {
				e.Inconcl = append(e.Inconcl, res.Outcome+": "+res.Msg)
			}
		}
		if res.Outcome == "completed" || res.Outcome == "panic" {
			if len(e.Samples) < e.sampleCap() {
				e.mu.Unlock()
				ps := i.sample(res.Outcome)
				e.mu.Lock()
				if ps != nil {
					e.Samples = append(e.Samples, *ps)
				}
			}
		}
		if e.Paths >= e.cfg.MaxPaths {
			e.Inconcl = append(e.Inconcl, fmt.Sprintf("path budget %d exhausted", e.cfg.MaxPaths))
			e.stop = true
		}
		if !e.cfg.Deadline.IsZero() && time.Now().After(e.cfg.Deadline) {
			e.Inconcl = append(e.Inconcl, "time budget exhausted")
			e.stop = true
		}
		e.active--
		if e.stop || (e.active == 0 && len(e.work) == 0) {
			e.cond.Broadcast()
		}
		e.mu.Unlock()
	}
	e.mu.Lock()
	st := solver.Stats
	e.Stats.Sat += st.Sat
	e.Stats.Unsat += st.Unsat
	e.Stats.Unknown += st.Unknown
	e.Stats.Errors += st.Errors
	e.Stats.Queries += st.Queries
	e.Stats.Time += st.Time
	e.mu.Unlock()
}

// runPath executes the harness once under the given decision prefix.
func (i *interpreter) runPath(prefix []Decision) (res PathResult) {
	i.globals = map[*ssa.Global]*value{}
	i.pkgInit = map[*ssa.Package]int{}
	i.prefix = prefix
	i.reached = map[string]int{}
	i.funcs = map[*ssa.Function]int{}
	i.stubs = map[string]bool{}
	i.bounds = map[string]bool{}
	i.mapOrderNondet = i.ex.cfg.MapOrderNondet
	if rp := i.prog.ImportedPackage("runtime"); rp != nil {
		i.runtimeErrorString = rp.Type("errorString").Object().Type()
	}
	if i.ex.cfg.Scheduler {
		i.sched = newScheduler(i)
	}
	res.Outcome = "completed"
	func() {
		defer func() {
			r := recover()
			if r == nil {
				return
			}
			switch p := r.(type) {
			case *pathAbort:
				res.Msg = p.msg
				switch p.kind {
				case abInfeasible, abDone:
					res.Outcome = "pruned"
				case abUnsupported:
					res.Outcome = "unsupported"
				case abUnwind:
					res.Outcome = "unwind"
				case abSolver:
					res.Outcome = "solver"
				case abSteps:
					res.Outcome = "steps"
				case abDeadlock:
					res.Outcome = "deadlock"
					i.reportOutcome("deadlock", "", p.msg, p.msg)
				default:
					res.Outcome = "engine"
				}
			case *targetPanic:
				res.Outcome = "panic"
				res.Msg = toString(p.v) + " @ " + p.site
				i.panicStack = p.stack
				i.reportOutcome("panic", "", p.site, panicMessage(p))
			default:
				res.Outcome = "engine"
				res.Msg = fmt.Sprintf("%v\n%s", r, debug.Stack())
			}
		}()
		if i.sched != nil {
			i.sched.runMain(func() { i.call(nil, 0, i.ex.cfg.Harness, nil) })
		} else {
			i.call(nil, 0, i.ex.cfg.Harness, nil)
		}
	}()
	if i.sched != nil {
		i.sched.teardown()
	}
	res.Violations = i.viol
	res.Reached = i.reached
	return res
}

func panicMessage(p *targetPanic) string {
	if itf, ok := p.v.(iface); ok {
		if s, ok := itf.v.(string); ok {
			return s
		}
	}
	return toString(p.v)
}

// ---- path condition, decisions ----

func (i *interpreter) fresh(name string, s smt.Sort) *smt.Term {
	i.nfresh++
	return i.ctx.Var(fmt.Sprintf("%s!%d", sanitize(name), i.nfresh), s)
}

func sanitize(s string) string {
	var sb strings.Builder
	for _, r := range s {
		if r >= 'a' && r <= 'z' || r >= 'A' && r <= 'Z' || r >= '0' && r <= '9' || r == '_' || r == '.' {
			sb.WriteRune(r)
		} else {
			sb.WriteByte('_')
		}
	}
	if sb.Len() == 0 {
		return "v"
	}
	return sb.String()
}

func (i *interpreter) assumeInternal(t *smt.Term) {
	if t.IsTrue() {
		return
	}
	i.pc = append(i.pc, t)
	if i.pcSet == nil {
		i.pcSet = map[int]bool{}
	}
	i.pcSet[t.ID] = true
	h := i.ctx.Hash(t)
	i.pcHash[0] += h[0]
	i.pcHash[1] += h[1]
	// constraint independence: union the variables of t
	vs := i.ctx.VarsOf(t)
	if i.uf == nil {
		i.uf = map[int]int{}
	}
	for k := 1; k < len(vs); k++ {
		i.union(vs[0], vs[k])
	}
}

func (i *interpreter) replaying() bool { return len(i.trace) < len(i.prefix) }

func (i *interpreter) solverFail(what string) *pathAbort {
	return &pathAbort{kind: abSolver, msg: what + ": " + i.solver.LastErr}
}

// branch decides a symbolic condition, forking when both sides are feasible.
func (i *interpreter) branch(cond *smt.Term, fr *frame) bool {
	if cond.IsConst() {
		return cond.C == 1
	}
	if fr != nil {
		if fr.symIfs == nil {
			fr.symIfs = map[ssa.Instruction]int{}
		}
		fr.symIfs[fr.cur]++
		if fr.symIfs[fr.cur] > i.ex.cfg.UnwindCap {
			panic(&pathAbort{kind: abUnwind, msg: fmt.Sprintf("unwinding cap %d hit at %s", i.ex.cfg.UnwindCap, fr.site())})
		}
	}
	if i.replaying() {
		d := i.prefix[len(i.trace)]
		i.trace = append(i.trace, d)
		if d.Val == 1 {
			i.assumeInternal(cond)
			return true
		}
		i.assumeInternal(i.ctx.Not(cond))
		return false
	}
	neg := i.ctx.Not(cond)
	// a condition already on the path condition (or its negation) is decided syntactically
	if i.pcSet[cond.ID] {
		i.trace = append(i.trace, Decision{Val: 1, Forced: true})
		return true
	}
	if i.pcSet[neg.ID] {
		i.trace = append(i.trace, Decision{Val: 0, Forced: true})
		return false
	}
	// feasibility pruning: unknown (or slow) = keep the branch (over-approximation)
	rt := i.feasible(cond)
	if rt == smt.Unsat {
		i.trace = append(i.trace, Decision{Val: 0, Forced: true})
		i.assumeInternal(neg)
		return false
	}
	rf := i.feasible(neg)
	if rf == smt.Unsat {
		i.trace = append(i.trace, Decision{Val: 1, Forced: true})
		i.assumeInternal(cond)
		return true
	}
	alt := make([]Decision, len(i.trace)+1)
	copy(alt, i.trace)
	alt[len(i.trace)] = Decision{Val: 0}
	i.ex.push(alt)
	i.trace = append(i.trace, Decision{Val: 1})
	i.assumeInternal(cond)
	return true
}

// feasible is a pruning query: Unsat prunes, Sat/Unknown keep. A query that runs
// past the feasibility limit kills the solver process, which is then restarted
// and re-fed the path condition.
func (i *interpreter) find(v int) int {
	for {
		p, ok := i.uf[v]
		if !ok || p == v {
			return v
		}
		if gp, ok := i.uf[p]; ok && gp != p {
			i.uf[v] = gp
		}
		v = p
	}
}

func (i *interpreter) union(a, b int) {
	ra, rb := i.find(a), i.find(b)
	if ra != rb {
		i.uf[ra] = rb
	}
}

// slice returns the path-condition constraints that share variables (transitively) with the query terms:
// the only ones that can influence its satisfiability, given that the rest of the path condition is
// satisfiable on its own (constraint independence, as in KLEE).
func (i *interpreter) pcSlice(q ...*smt.Term) []*smt.Term {
	roots := map[int]bool{}
	for _, t := range q {
		for _, v := range i.ctx.VarsOf(t) {
			roots[i.find(v)] = true
		}
	}
	var out []*smt.Term
	for _, p := range i.pc {
		vs := i.ctx.VarsOf(p)
		if len(vs) > 0 && roots[i.find(vs[0])] {
			out = append(out, p)
		}
	}
	return out
}

// sliceKey identifies a sliced query structurally (order-insensitive over the slice).
func (i *interpreter) sliceKey(sl []*smt.Term, extra ...*smt.Term) [4]uint64 {
	var k [4]uint64
	for _, p := range sl {
		h := i.ctx.Hash(p)
		k[0] += h[0]
		k[1] += h[1]
	}
	for n, e := range extra {
		h := i.ctx.Hash(e)
		k[2] += h[0] * uint64(2*n+3)
		k[3] += h[1] * uint64(2*n+5)
	}
	return k
}

// feasible is a pruning query: Unsat prunes, Sat/Unknown keep. It is decided on the independent slice of
// the path condition and cached structurally across paths. A query that runs past the feasibility limit
// kills the solver process (restarted on the next query).
func (i *interpreter) feasible(t *smt.Term) smt.Result {
	sl := i.pcSlice(t)
	key := i.sliceKey(sl, t)
	if r, ok := i.ex.qcache.Load(key); ok {
		i.ex.cacheHits.Add(1)
		return r.(smt.Result)
	}
	q := append(append([]*smt.Term{}, sl...), t)
	r, killed := i.solver.CheckTimeout(i.ex.feasLimit, q...)
	if killed {
		i.solver.Reset()
	}
	if r == smt.Unknown {
		i.keptUnknown++
	} else {
		i.ex.qcache.Store(key, r)
	}
	return r
}

// concretize forks over every feasible value of t (bounded by ConcLimit).
func (i *interpreter) concretize(t *smt.Term) uint64 {
	if t.IsConst() {
		return t.C
	}
	c := i.ctx
	w := t.Sort.W
	if i.replaying() {
		d := i.prefix[len(i.trace)]
		i.trace = append(i.trace, d)
		i.assumeInternal(c.Eq(t, c.BVC(d.Val, w)))
		return d.Val
	}
	var vals []uint64
	var block []*smt.Term
	for {
		r, m := i.solver.CheckModel([]*smt.Term{t}, append(append([]*smt.Term{}, i.pcSlice(t)...), block...)...)
		if r == smt.Unknown {
			panic(i.solverFail("concretize"))
		}
		if r == smt.Unsat {
			break
		}
		v := m[smt.KeyOf(t)]
		vals = append(vals, v)
		block = append(block, c.Not(c.Eq(t, c.BVC(v, w))))
		if len(vals) > i.ex.cfg.ConcLimit {
			site := ""
			if i.curFrame != nil {
				site = i.curFrame.site()
			}
			panic(&pathAbort{kind: abUnwind, msg: fmt.Sprintf("more than %d feasible values for a shape-determining integer at %s", i.ex.cfg.ConcLimit, site)})
		}
	}
	if len(vals) == 0 {
		panic(&pathAbort{kind: abInfeasible, msg: "concretize: infeasible"})
	}
	sort.Slice(vals, func(a, b int) bool { return vals[a] < vals[b] })
	for _, v := range vals[1:] {
		alt := make([]Decision, len(i.trace)+1)
		copy(alt, i.trace)
		alt[len(i.trace)] = Decision{Val: v}
		i.ex.push(alt)
	}
	i.trace = append(i.trace, Decision{Val: vals[0], Forced: len(vals) == 1})
	i.assumeInternal(c.Eq(t, c.BVC(vals[0], w)))
	return vals[0]
}

// choose is a pure decision among n alternatives (scheduler, permutations).
func (i *interpreter) choose(n int) int {
	if n <= 1 {
		return 0
	}
	if i.replaying() {
		d := i.prefix[len(i.trace)]
		i.trace = append(i.trace, d)
		return int(d.Val)
	}
	for v := 1; v < n; v++ {
		alt := make([]Decision, len(i.trace)+1)
		copy(alt, i.trace)
		alt[len(i.trace)] = Decision{Val: uint64(v)}
		i.ex.push(alt)
	}
	i.trace = append(i.trace, Decision{Val: 0})
	return 0
}

func (i *interpreter) choosePerm(m *omap) []int {
	var live []int
	for s := range m.keys {
		if m.live[s] {
			live = append(live, s)
		}
	}
	// choose a permutation by successive choices
	var out []int
	for len(live) > 0 {
		k := i.choose(len(live))
		out = append(out, live[k])
		live = append(live[:k:k], live[k+1:]...)
	}
	return out
}

// boundAssume restricts the path by a *bound* (recorded in evidence as outside the claim).
func (i *interpreter) boundAssume(t *smt.Term, what string) {
	i.bounds[what] = true
	i.userAssume(t)
}

// userAssume implements rt.Assume: prunes the path when infeasible.
func (i *interpreter) userAssume(t *smt.Term) {
	if t.IsTrue() {
		return
	}
	if t.IsFalse() {
		panic(&pathAbort{kind: abInfeasible, msg: "assume(false)"})
	}
	if !i.replaying() {
		if i.feasible(t) == smt.Unsat {
			panic(&pathAbort{kind: abInfeasible, msg: "assumption infeasible"})
		}
	}
	i.assumeInternal(t)
}

func (i *interpreter) knownDisj() *smt.Term {
	k := i.ctx.False
	for _, kp := range i.known {
		if i.ex.cfg.KnownActive[kp.id] {
			k = i.ctx.Or(k, kp.cond)
		}
	}
	return k
}

func (i *interpreter) inputVars() []*smt.Term {
	var vs []*smt.Term
	for _, n := range i.nondet {
		for _, t := range n.Terms {
			if t != nil && !t.IsConst() {
				vs = append(vs, t)
			}
		}
	}
	return vs
}

func (i *interpreter) replayVals(m map[string]uint64) []ReplayVal {
	var out []ReplayVal
	get := func(t *smt.Term) uint64 {
		if t.IsConst() {
			return t.C
		}
		return m[smt.KeyOf(t)]
	}
	for _, n := range i.nondet {
		rv := ReplayVal{Name: n.Name, Kind: n.Kind}
		switch n.Kind {
		case "string", "bytes", "uf":
			rv.Bytes = []uint64{}
			for _, t := range n.Terms {
				rv.Bytes = append(rv.Bytes, get(t))
			}
		case "param", "choose":
			rv.Bits = n.Conc[0]
		default:
			rv.Bits = get(n.Terms[0])
		}
		out = append(out, rv)
	}
	return out
}

// modelFor asks for a model of path ∧ extra, preferring one that also satisfies
// the harness's soft constraints (rt.Prefer: small, natively replayable values).
func (i *interpreter) modelFor(vars []*smt.Term, extra ...*smt.Term) (smt.Result, map[string]uint64) {
	full := append(append([]*smt.Term{}, i.pc...), extra...)
	if len(i.soft) > 0 {
		all := append(append([]*smt.Term{}, full...), i.soft...)
		if r, m := i.solver.CheckModel(vars, all...); r == smt.Sat {
			return r, m
		}
	}
	return i.solver.CheckModel(vars, full...)
}

// userAssert implements rt.Assert.
func (i *interpreter) userAssert(cond value, id string) {
	i.reached[id]++
	var t *smt.Term
	switch c := cond.(type) {
	case bool:
		if c {
			return
		}
		t = i.ctx.False
	case *smt.Term:
		t = c
	}
	if i.replaying() {
		// already decided by the ancestor path that created this prefix
		if !t.IsFalse() {
			i.assumeInternal(t)
			return
		}
		panic(&pathAbort{kind: abDone, msg: "assert(false) in replayed prefix"})
	}
	neg := i.ctx.Not(t)
	K := i.knownDisj()
	vars := i.inputVars()
	// ordinary violation: path ∧ ¬c ∧ ¬K — decided on the independent slice (cached across paths);
	// the full path condition is only sent when a model of a violation is needed
	notK := i.ctx.Not(K)
	sl := i.pcSlice(neg, notK)
	akey := i.sliceKey(sl, neg, notK)
	var r smt.Result
	var m map[string]uint64
	if c, ok := i.ex.qcache.Load(akey); ok && c.(smt.Result) == smt.Unsat {
		i.ex.cacheHits.Add(1)
		r = smt.Unsat
	} else {
		r = i.solver.Check(append(append([]*smt.Term{}, sl...), neg, notK)...)
		if r == smt.Unsat {
			i.ex.qcache.Store(akey, r)
		} else if r == smt.Sat {
			r, m = i.modelFor(vars, neg, notK)
		}
	}
	if r == smt.Unknown {
		panic(i.solverFail("assert " + id))
	}
	if r == smt.Sat {
		i.addViolation("assert", id, "", m, "")
	}
	if !K.IsFalse() {
		for _, kp := range i.known {
			if !i.ex.cfg.KnownActive[kp.id] {
				continue
			}
			r, m := i.modelFor(vars, neg, kp.cond)
			if r == smt.Unknown {
				panic(i.solverFail("assert(known) " + id))
			}
			if r == smt.Sat {
				i.addViolation("assert", id, "", m, kp.id)
			}
		}
	}
	// continue under the asserted condition where possible
	if t.IsFalse() {
		panic(&pathAbort{kind: abDone, msg: "assert(false)"})
	}
	if i.feasible(t) == smt.Unsat {
		panic(&pathAbort{kind: abDone, msg: "assertion cannot hold on this path"})
	}
	i.assumeInternal(t)
}

// reportOutcome records a panic/deadlock outcome of the whole path as a violation.
func (i *interpreter) reportOutcome(kind, id, site, msg string) {
	if i.replayingStrict() {
		return
	}
	K := i.knownDisj()
	vars := i.inputVars()
	r, m := i.modelFor(vars, i.ctx.Not(K))
	if r == smt.Sat {
		v := i.mkViolation(kind, id, site, m, "")
		v.Msg = msg
		i.viol = append(i.viol, v)
	}
	if !K.IsFalse() {
		for _, kp := range i.known {
			if !i.ex.cfg.KnownActive[kp.id] {
				continue
			}
			r, m := i.modelFor(vars, kp.cond)
			if r == smt.Sat {
				v := i.mkViolation(kind, id, site, m, kp.id)
				v.Msg = msg
				i.viol = append(i.viol, v)
			}
		}
	}
}

// replayingStrict: the path ended while still inside the prescribed prefix;
// its outcome was then already reported by the ancestor.
func (i *interpreter) replayingStrict() bool { return len(i.trace) < len(i.prefix) }

func (i *interpreter) mkViolation(kind, id, site string, m map[string]uint64, known string) Violation {
	v := Violation{Kind: kind, AssertID: id, Site: site, Known: known}
	v.Nondet = i.replayVals(m)
	v.Decisions = append([]Decision(nil), i.trace...)
	if kind == "panic" && i.panicStack != nil {
		v.Stack = i.panicStack
	} else if i.curFrame != nil {
		v.Stack = i.curFrame.stack(12)
		if site == "" {
			v.Site = i.curFrame.site()
		}
	}
	v.Sched = append([]string(nil), i.schedTrace...)
	if i.race != nil && len(i.race.reports) > 0 && strings.Contains(id, "race") {
		v.Msg = strings.Join(i.race.reports, " ;; ")
	}
	return v
}

func (i *interpreter) addViolation(kind, id, site string, m map[string]uint64, known string) {
	i.viol = append(i.viol, i.mkViolation(kind, id, site, m, known))
}

// sample extracts a concrete witness of this (completed) path together with the
// values of its Observe terms under that witness.
func (i *interpreter) sample(outcome string) *PathSample {
	vars := i.inputVars()
	all := append(append([]*smt.Term{}, i.pc...), i.soft...)
	r, m, killed := i.solver.CheckModelTimeout(i.ex.feasLimit, vars, all...)
	if r != smt.Sat && !killed && len(i.soft) > 0 {
		r, m, killed = i.solver.CheckModelTimeout(i.ex.feasLimit, vars, i.pc...)
	}
	if killed {
		i.solver.Reset()
	}
	if r != smt.Sat {
		return nil
	}
	ps := &PathSample{Decisions: append([]Decision(nil), i.trace...), Nondet: i.replayVals(m), Outcome: outcome}
	memo := map[int]uint64{}
	for _, o := range i.observes {
		ps.Observes = append(ps.Observes, ObservedVal{Tag: o.tag, Val: i.renderObserved(o.v, m, memo)})
	}
	return ps
}

func (i *interpreter) evalTerm(t *smt.Term, m map[string]uint64, memo map[int]uint64) (uint64, bool) {
	return i.ctx.Eval(t, m, memo)
}

// renderObserved prints a value under model m the way rt.Observe prints natively.
func (i *interpreter) renderObserved(v value, m map[string]uint64, memo map[int]uint64) string {
	switch x := v.(type) {
	case iface:
		if x.t == nil {
			return "nil"
		}
		return i.renderObserved(x.v, m, memo)
	case *smt.Term:
		b, ok := i.evalTerm(x, m, memo)
		if !ok {
			return "?"
		}
		switch x.Sort.K {
		case smt.KBool:
			return fmt.Sprintf("b:%d", b)
		case smt.KFP:
			return fmt.Sprintf("f:%016x", normNaN(b))
		}
		return fmt.Sprintf("i:%x", b&smt.Mask(x.Sort.W))
	case bool:
		if x {
			return "b:1"
		}
		return "b:0"
	case float64:
		return fmt.Sprintf("f:%016x", normNaN(*(*uint64)(unsafe.Pointer(&x))))
	case string:
		return fmt.Sprintf("s:%x", x)
	case *symStr:
		bs := make([]byte, len(x.b))
		for k, e := range x.b {
			switch e := e.(type) {
			case uint8:
				bs[k] = e
			case *smt.Term:
				b, ok := i.evalTerm(e, m, memo)
				if !ok {
					return "?"
				}
				bs[k] = byte(b)
			}
		}
		return fmt.Sprintf("s:%x", bs)
	case []value:
		var sb strings.Builder
		sb.WriteString("[")
		for k, e := range x {
			if k > 0 {
				sb.WriteString(",")
			}
			sb.WriteString(i.renderObserved(e, m, memo))
		}
		sb.WriteString("]")
		return sb.String()
	}
	if b, ok := bitsOf(v); ok {
		k, _ := kindOfValue(v)
		w, _, _ := intInfo(k)
		return fmt.Sprintf("i:%x", b&smt.Mask(w))
	}
	return fmt.Sprintf("?%T", v)
}

func normNaN(b uint64) uint64 {
	if b&0x7ff0000000000000 == 0x7ff0000000000000 && b&0x000fffffffffffff != 0 {
		return 0x7ff8000000000001
	}
	return b
}

func (i *interpreter) noteFunc(fn *ssa.Function, inf *fnInfo) {
	if _, ok := i.funcs[fn]; !ok {
		i.funcs[fn] = inf.ninstr
	}
}

func (i *interpreter) noteStub(s string) { i.stubs[s] = true }

// watchHit: a store into a watched cell; changed tells whether the stored value differs from the old one
// (value-level frame conditions count only those; race-level ones count every store).
type watchHit struct {
	what    string
	changed bool
}

func (i *interpreter) noteStore(p *value) { i.noteStoreVal(p, bad{}) }

func (i *interpreter) noteStoreVal(p *value, nv value) {
	if i.watch != nil {
		if what, ok := i.watch[p]; ok {
			site := ""
			if i.curFrame != nil {
				site = i.curFrame.site()
			}
			i.watchHits = append(i.watchHits, watchHit{what + " written at " + site, !sameStored(*p, nv)})
		}
	}
}

// sameStored: is storing b into a cell that holds a a no-op at the value level? Conservative: false when unsure.
func sameStored(a, b value) (same bool) {
	defer func() {
		if recover() != nil {
			same = false
		}
	}()
	switch x := a.(type) {
	case nil:
		return b == nil
	case *smt.Term:
		y, ok := b.(*smt.Term)
		return ok && x == y
	case structure:
		y, ok := b.(structure)
		if !ok || len(x) != len(y) {
			return false
		}
		for k := range x {
			if !sameStored(x[k], y[k]) {
				return false
			}
		}
		return true
	case array:
		y, ok := b.(array)
		if !ok || len(x) != len(y) {
			return false
		}
		for k := range x {
			if !sameStored(x[k], y[k]) {
				return false
			}
		}
		return true
	case []value:
		y, ok := b.([]value)
		return ok && len(x) == len(y) && cap(x) == cap(y) && unsafe.SliceData(x) == unsafe.SliceData(y)
	case iface:
		y, ok := b.(iface)
		if !ok {
			return false
		}
		if x.t == nil || y.t == nil {
			return x.t == nil && y.t == nil
		}
		return types.Identical(x.t, y.t) && sameStored(x.v, y.v)
	case *symStr:
		y, ok := b.(*symStr)
		if !ok || len(x.b) != len(y.b) {
			return false
		}
		for k := range x.b {
			if !sameStored(x.b[k], y.b[k]) {
				return false
			}
		}
		return true
	case bad, *closure, tuple:
		return false
	}
	return a == b // comparable scalars, strings, pointers; a panic (uncomparable) means "unsure"
}

func (i *interpreter) nextChanID() int {
	i.chanSeq++
	return i.chanSeq
}

// CacheHits is the number of solver queries answered from the cross-path cache
// (same path condition and query structure decided earlier in this run).
func (e *Explorer) CacheHits() int64 { return e.cacheHits.Load() }

// Reexec deterministically re-executes one path from its decision vector (same SSA,
// same solver, no forking) and returns the violations it reports. It is the
// authoritative replay for schedule-dependent counterexamples, whose interleaving
// cannot be dictated to the compiled program.
func (e *Explorer) Reexec(dec []Decision) ([]Violation, string) {
	ctx := smt.NewCtx()
	solver, err := smt.NewSolver(e.cfg.SolverName, ctx, e.cfg.SolverTimeout)
	if err != nil {
		return nil, "solver: " + err.Error()
	}
	defer solver.Close()
	e.noFork = true
	defer func() { e.noFork = false }()
	i := &interpreter{prog: e.prog, ex: e, fnInfos: map[*ssa.Function]*fnInfo{}, stepLimit: e.cfg.StepLimit}
	i.ctx = smt.NewCtx()
	solver.SetCtx(i.ctx)
	i.solver = solver
	res := i.runPath(dec)
	return res.Violations, res.Outcome + ": " + res.Msg
}
