package sym

import (
	"fmt"
	"go/token"
	"go/types"
	"strconv"
	"strings"

	"golang.org/x/tools/go/ssa"

	"verif/engine/smt"
)

const tokenADD = token.ADD

func fmtInt(v int64, base int) string   { return strconv.FormatInt(v, base) }
func fmtUint(v uint64, base int) string { return strconv.FormatUint(v, base) }
func formatFloat(f float64, fmtc byte, prec, bits int) string {
	return strconv.FormatFloat(f, fmtc, prec, bits)
}

// callMethod invokes method name on a dynamic value if its type has it.
func (i *interpreter) callMethod(fr *frame, itf iface, name string, args ...value) (value, bool) {
	if itf.t == nil {
		return nil, false
	}
	ms := i.prog.MethodSets.MethodSet(itf.t)
	for k := 0; k < ms.Len(); k++ {
		sel := ms.At(k)
		if sel.Obj().Name() == name && sel.Obj().Exported() || sel.Obj().Name() == name {
			fn := i.prog.MethodValue(sel)
			if fn == nil {
				return nil, false
			}
			all := append([]value{itf.v}, args...)
			return i.call(fr, 0, fn, all), true
		}
	}
	return nil, false
}

// nativeOf converts a concrete basic value for use with Go's fmt.
func nativeOf(v value) (interface{}, bool) {
	switch x := v.(type) {
	case bool, int, int8, int16, int32, int64, uint, uint8, uint16, uint32, uint64, uintptr, float32, float64, complex64, complex128, string:
		return x, true
	}
	return nil, false
}

// fmtArg renders one operand for a verb.
func (i *interpreter) fmtArg(fr *frame, verb byte, flags string, arg value) string {
	itf, ok := arg.(iface)
	if !ok {
		return toString(arg)
	}
	if itf.t == nil {
		if verb == 'v' || verb == 's' {
			return "<nil>"
		}
		return "%!" + string(verb) + "(<nil>)"
	}
	if verb == 'T' {
		return itf.t.String()
	}
	if verb == 'v' || verb == 's' || verb == 'q' || verb == 'w' {
		if r, ok := i.callMethod(fr, itf, "Error"); ok {
			return i.strOpaque(r)
		}
		if r, ok := i.callMethod(fr, itf, "String"); ok {
			return i.strOpaque(r)
		}
	}
	if n, ok := nativeOf(itf.v); ok {
		return fmt.Sprintf("%"+flags+string(verb), n)
	}
	switch x := itf.v.(type) {
	case *smt.Term, *symStr:
		i.noteStub("fmt of a symbolic operand renders as opaque text")
		return "<sym>"
	case []value:
		if b, ok := itf.t.Underlying().(*types.Slice); ok {
			if bk, ok := b.Elem().Underlying().(*types.Basic); ok && bk.Kind() == types.Byte {
				s := mkStr(x)
				if str, ok := s.(string); ok {
					return fmt.Sprintf("%"+flags+string(verb), []byte(str))
				}
				return "<sym>"
			}
		}
		var parts []string
		for _, e := range x {
			parts = append(parts, i.fmtArg(fr, verb, flags, iface{t: itf.t.Underlying().(*types.Slice).Elem(), v: e}))
		}
		return "[" + strings.Join(parts, " ") + "]"
	case *value:
		if x == nil {
			return "<nil>"
		}
		return fmt.Sprintf("%p", x)
	}
	return toString(itf.v)
}

func (i *interpreter) strOpaque(v value) string {
	switch s := v.(type) {
	case string:
		return s
	case *symStr:
		i.noteStub("fmt of a symbolic operand renders as opaque text")
		return "<sym>"
	}
	return toString(v)
}

func (i *interpreter) sprintf(fr *frame, format value, args []value) value {
	f, ok := format.(string)
	if !ok {
		i.noteStub("fmt of a symbolic operand renders as opaque text")
		return "<sym-format>"
	}
	s, _ := i.sprintfW(fr, f, args)
	return s
}

func (i *interpreter) sprintfW(fr *frame, f string, args []value) (string, []int) {
	var sb strings.Builder
	var wrapped []int
	argi := 0
	for k := 0; k < len(f); k++ {
		c := f[k]
		if c != '%' {
			sb.WriteByte(c)
			continue
		}
		k++
		if k >= len(f) {
			sb.WriteString("%!(NOVERB)")
			break
		}
		start := k
		for k < len(f) && strings.IndexByte("+-# 0123456789.*", f[k]) >= 0 {
			k++
		}
		if k >= len(f) {
			sb.WriteString("%!(NOVERB)")
			break
		}
		flags := f[start:k]
		verb := f[k]
		if verb == '%' {
			sb.WriteByte('%')
			continue
		}
		if strings.Contains(flags, "*") {
			argi++ // width from args: ignore
			flags = strings.ReplaceAll(flags, "*", "")
		}
		if argi >= len(args) {
			sb.WriteString("%!" + string(verb) + "(MISSING)")
			continue
		}
		if verb == 'w' {
			wrapped = append(wrapped, argi)
			sb.WriteString(i.fmtArg(fr, 'v', flags, args[argi]))
		} else {
			sb.WriteString(i.fmtArg(fr, verb, flags, args[argi]))
		}
		argi++
	}
	return sb.String(), wrapped
}

func (i *interpreter) sprint(fr *frame, args []value, ln bool) value {
	var sb strings.Builder
	for k, a := range args {
		if k > 0 && ln {
			sb.WriteByte(' ')
		}
		sb.WriteString(i.fmtArg(fr, 'v', "", a))
	}
	if ln {
		sb.WriteByte('\n')
	}
	return sb.String()
}

func (i *interpreter) namedType(pkg, name string) types.Type {
	p := i.prog.ImportedPackage(pkg)
	if p == nil {
		panic(i.unsupported("package " + pkg + " not loaded"))
	}
	t := p.Type(name)
	if t == nil {
		panic(i.unsupported("type " + pkg + "." + name + " not found"))
	}
	return t.Type()
}

func (i *interpreter) newErrorString(msg string) value {
	t := i.namedType("errors", "errorString")
	cell := value(structure{msg})
	return iface{t: types.NewPointer(t), v: &cell}
}

func fmtErrorf(fr *frame, args []value) value {
	i := fr.i
	f, ok := args[0].(string)
	if !ok {
		return i.newErrorString("<sym-format>")
	}
	vargs := args[1].([]value)
	msg, wrapped := i.sprintfW(fr, f, vargs)
	var errs []value
	for _, k := range wrapped {
		if e, ok := vargs[k].(iface); ok && e.t != nil {
			if types.Implements(e.t, errorIface()) {
				errs = append(errs, e)
			}
		}
	}
	switch len(errs) {
	case 0:
		return i.newErrorString(msg)
	case 1:
		t := i.namedType("fmt", "wrapError")
		cell := value(structure{msg, errs[0]})
		return iface{t: types.NewPointer(t), v: &cell}
	}
	t := i.namedType("fmt", "wrapErrors")
	cell := value(structure{msg, []value(errs)})
	return iface{t: types.NewPointer(t), v: &cell}
}

func errorIface() *types.Interface {
	return types.Universe.Lookup("error").Type().Underlying().(*types.Interface)
}

func (i *interpreter) truth(fr *frame, v value) bool {
	switch b := v.(type) {
	case bool:
		return b
	case *smt.Term:
		return i.branch(b, nil)
	}
	panic("truth")
}

// errorsIs implements errors.Is by walking the chain with the program's own
// Is/Unwrap methods (the library version needs reflectlite only for Comparable).
func errorsIs(fr *frame, args []value) value {
	i := fr.i
	err, target := args[0].(iface), args[1].(iface)
	if err.t == nil || target.t == nil {
		return err.t == nil && target.t == nil
	}
	return i.errIs(fr, err, target, types.Comparable(target.t))
}

func (i *interpreter) errIs(fr *frame, err, target iface, cmp bool) bool {
	for {
		if err.t == nil {
			return false
		}
		if cmp && sameType(err.t, target.t) && types.Comparable(err.t) {
			if i.truth(fr, i.equalsV(err.t, err.v, target.v)) {
				return true
			}
		}
		if r, ok := i.callIfSig(fr, err, "Is", "func(error) bool", target); ok {
			if i.truth(fr, r) {
				return true
			}
		}
		if r, ok := i.callIfSig(fr, err, "Unwrap", "func() error"); ok {
			err = r.(iface)
			continue
		}
		if r, ok := i.callIfSig(fr, err, "Unwrap", "func() []error"); ok {
			for _, e := range r.([]value) {
				if i.errIs(fr, e.(iface), target, cmp) {
					return true
				}
			}
			return false
		}
		return false
	}
}

// callIfSig calls method name when it exists with the given signature shape.
func (i *interpreter) callIfSig(fr *frame, itf iface, name, sig string, args ...value) (value, bool) {
	ms := i.prog.MethodSets.MethodSet(itf.t)
	sel := ms.Lookup(nil, name)
	if sel == nil {
		// unexported lookups need the package; exported only here
		return nil, false
	}
	s := sel.Type().(*types.Signature)
	got := "func(" + tupleString(s.Params()) + ")"
	if s.Results().Len() > 0 {
		got += " " + tupleString(s.Results())
	}
	if got != sig {
		return nil, false
	}
	fn := i.prog.MethodValue(sel)
	if fn == nil {
		return nil, false
	}
	all := append([]value{itf.v}, args...)
	return i.call(fr, 0, fn, all), true
}

func tupleString(t *types.Tuple) string {
	var parts []string
	for k := 0; k < t.Len(); k++ {
		parts = append(parts, types.TypeString(t.At(k).Type(), nil))
	}
	return strings.Join(parts, ", ")
}

// errorsAs implements errors.As.
func errorsAs(fr *frame, args []value) value {
	i := fr.i
	err, target := args[0].(iface), args[1].(iface)
	if target.t == nil {
		panic(i.runtimeError("errors: target cannot be nil"))
	}
	pt, ok := target.t.Underlying().(*types.Pointer)
	if !ok {
		panic(i.runtimeError("errors: target must be a non-nil pointer"))
	}
	tp := target.v.(*value)
	if tp == nil {
		panic(i.runtimeError("errors: target must be a non-nil pointer"))
	}
	elem := pt.Elem()
	return i.errAs(fr, err, elem, tp, target)
}

func (i *interpreter) errAs(fr *frame, err iface, elem types.Type, tp *value, target iface) bool {
	for {
		if err.t == nil {
			return false
		}
		if ei, isIface := elem.Underlying().(*types.Interface); isIface {
			if types.Implements(err.t, ei) {
				*tp = err
				return true
			}
		} else if types.Identical(err.t, elem) {
			store(elem, tp, err.v)
			return true
		}
		if r, ok := i.callIfSig(fr, err, "As", "func(any) bool", target); ok {
			if i.truth(fr, r) {
				return true
			}
		} else if r, ok := i.callIfSig(fr, err, "As", "func(interface{}) bool", target); ok {
			if i.truth(fr, r) {
				return true
			}
		}
		if r, ok := i.callIfSig(fr, err, "Unwrap", "func() error"); ok {
			err = r.(iface)
			continue
		}
		if r, ok := i.callIfSig(fr, err, "Unwrap", "func() []error"); ok {
			for _, e := range r.([]value) {
				if i.errAs(fr, e.(iface), elem, tp, target) {
					return true
				}
			}
			return false
		}
		return false
	}
}

// skipInit lists packages whose initialisers are not executed (their globals stay zero).
func (i *interpreter) skipInit(path string) bool {
	for _, p := range skipInitPrefixes {
		if path == p || strings.HasPrefix(path, p+"/") {
			return true
		}
	}
	return false
}

var skipInitPrefixes = []string{
	"runtime", "internal/cpu", "internal/godebug", "internal/godebugs", "os", "syscall", "internal/poll", "internal/syscall",
	"reflect", "internal/reflectlite", "github.com/klauspost/cpuid", "github.com/klauspost/compress",
	"github.com/google/flatbuffers", "google.golang.org/protobuf", "github.com/gogo/protobuf", "github.com/golang/protobuf",
	"google.golang.org/grpc", "net", "crypto", "encoding/json", "testing", "log", "text/template", "html/template",
	"golang.org/x/sys", "golang.org/x/net", "go.uber.org/zap", "go.uber.org/multierr", "internal/bisect",
	"github.com/open-telemetry/otel-arrow/api", "math/rand", "internal/chacha8rand", "hash/crc32", "vendor", "go.opentelemetry.io/otel/sdk", "encoding/gob",
}

var _ = ssa.NewProgram
