package sym

import (
	"fmt"
	"go/types"
	"strings"
)

// Happens-before data-race detection over the schedules the delay-bounded scheduler explores
// (vector clocks, DJIT+/FastTrack style; the synchronisation edges are those of the Go memory model
// and are established exactly where the Go race detector establishes them: go statement, channel
// send/receive/close incl. the buffer-slot protocol, Mutex/RWMutex, WaitGroup, sync/atomic, sync.Map,
// timers). A race is a pair of accesses to the same heap cell (or the same map), at least one a write,
// by two different tasks, unordered by happens-before IN THE EXPLORED SCHEDULE. Because the check is on
// the happens-before relation and not on adjacency, context switches at synchronisation operations are
// enough: two conflicting plain accesses that no synchronisation orders are reported in whichever order
// the explored schedule ran them.
//
// Accesses made by frames of harness code (files zz_verif_*, package zzverifrt) are not tracked: the
// harness's own test doubles rely on the engine's baton. Frames of the library MODELS (arrow/array, arrow/ipc,
// cbor ...) are tracked like the libraries they stand for, except the models' own bookkeeping (functions named
// verif*/Verif*: token table, live-object counters). Accesses during lazily executed package
// initialisers are not tracked either (Go runs them before main).

type vclock []uint32

func (a vclock) get(t int) uint32 {
	if t < len(a) {
		return a[t]
	}
	return 0
}

func (a *vclock) set(t int, v uint32) {
	for len(*a) <= t {
		*a = append(*a, 0)
	}
	(*a)[t] = v
}

func (a *vclock) join(b vclock) {
	for len(*a) < len(b) {
		*a = append(*a, 0)
	}
	for k, v := range b {
		if v > (*a)[k] {
			(*a)[k] = v
		}
	}
}

func (a vclock) clone() vclock { return append(vclock(nil), a...) }

type hbAccess struct {
	task int
	clk  uint32
	site string
}

type hbShadow struct {
	w     hbAccess
	hasW  bool
	reads []hbAccess
}

type raceState struct {
	shadow  map[interface{}]*hbShadow
	syncVC  map[interface{}]*vclock
	reports []string
	seen    map[string]bool
	checked int64
	ignore  map[*value]bool // bookkeeping globals of the library models (Verif*)
}

func newRaceState() *raceState {
	return &raceState{shadow: map[interface{}]*hbShadow{}, syncVC: map[interface{}]*vclock{}, seen: map[string]bool{}}
}

func (i *interpreter) raceOn() bool {
	return i.race != nil && i.sched != nil && i.inLazyInit == 0 && i.curTask != nil
}

// ---- clocks ----

func (i *interpreter) hbClock(t *task) *vclock {
	if t.vc == nil {
		t.vc = vclock{}
		t.vc.set(t.id, 1)
	}
	return &t.vc
}

func (i *interpreter) hbTick(t *task) {
	c := i.hbClock(t)
	c.set(t.id, c.get(t.id)+1)
}

// hbFork: child starts with the parent's clock (go statement / AfterFunc callback).
func (i *interpreter) hbFork(parent vclock, child *task) {
	child.vc = parent.clone()
	child.vc.set(child.id, child.vc.get(child.id)+1)
}

func (i *interpreter) hbSync(key interface{}) *vclock {
	c := i.race.syncVC[key]
	if c == nil {
		c = &vclock{}
		i.race.syncVC[key] = c
	}
	return c
}

// hbAcquire: the task learns everything released into key.
func (i *interpreter) hbAcquire(t *task, key interface{}) {
	if i.race == nil || t == nil {
		return
	}
	if c := i.race.syncVC[key]; c != nil {
		i.hbClock(t).join(*c)
	}
}

// hbRelease: key := key ⊔ clock(t); the task moves on to a new epoch.
func (i *interpreter) hbRelease(t *task, key interface{}) {
	if i.race == nil || t == nil {
		return
	}
	i.hbSync(key).join(*i.hbClock(t))
	i.hbTick(t)
}

// hbAcqRel: acquire then release (atomic read-modify-write, channel buffer slot).
func (i *interpreter) hbAcqRel(t *task, key interface{}) {
	i.hbAcquire(t, key)
	i.hbRelease(t, key)
}

// ---- channel edges ----

type chanSlot struct {
	ch *vchan
	k  int
}

type chanClose struct{ ch *vchan }

// hbChanSendBuf: task t's value enters the buffer of ch (slot protocol of the Go race detector).
func (i *interpreter) hbChanSendBuf(t *task, ch *vchan) {
	if i.race == nil || t == nil || ch.cap == 0 {
		return
	}
	i.hbAcqRel(t, chanSlot{ch, ch.sendx % ch.cap})
	ch.sendx++
}

// hbChanRecvBuf: task t takes the oldest buffered value of ch.
func (i *interpreter) hbChanRecvBuf(t *task, ch *vchan) {
	if i.race == nil || t == nil || ch.cap == 0 {
		return
	}
	i.hbAcqRel(t, chanSlot{ch, ch.recvx % ch.cap})
	ch.recvx++
}

// hbChanHandoff: a receiver takes the value of a parked sender directly (unbuffered rendezvous):
// the send happens before the receive completes and the receive happens before the send completes.
func (i *interpreter) hbChanHandoff(sender, receiver *task) {
	if i.race == nil || sender == nil || receiver == nil || sender == receiver {
		return
	}
	s, r := i.hbClock(sender), i.hbClock(receiver)
	sv := s.clone()
	s.join(*r)
	r.join(sv)
	i.hbTick(sender)
	i.hbTick(receiver)
}

// ---- memory accesses ----

func hbHarnessFrame(fr *frame) bool {
	if fr == nil || fr.fn == nil {
		return true
	}
	if fr.harnessKnown {
		return fr.harness
	}
	fr.harnessKnown = true
	fn := fr.fn
	for fn.Parent() != nil {
		fn = fn.Parent()
	}
	if fn.Pkg != nil && strings.HasSuffix(fn.Pkg.Pkg.Path(), "zzverifrt") {
		fr.harness = true
		return true
	}
	if fn.Prog != nil && fn.Pos().IsValid() {
		name := fn.Prog.Fset.Position(fn.Pos()).Filename
		if ModelFiles[name] {
			// library models: tracked like the libraries they stand for, except their own bookkeeping
			// (functions named verif*/Verif*: token table, live-object counters, detached master copies)
			fr.harness = strings.HasPrefix(fn.Name(), "verif") || strings.HasPrefix(fn.Name(), "Verif")
			return fr.harness
		}
		if k := strings.LastIndexByte(name, '/'); k >= 0 {
			name = name[k+1:]
		}
		fr.harness = strings.HasPrefix(name, "zz_verif")
	}
	return fr.harness
}

func (i *interpreter) raceRead(T types.Type, p *value) {
	if !i.raceOn() || hbHarnessFrame(i.curFrame) {
		return
	}
	i.raceWalk(T, p, false)
}

func (i *interpreter) raceWrite(T types.Type, p *value) {
	if !i.raceOn() || hbHarnessFrame(i.curFrame) {
		return
	}
	i.raceWalk(T, p, true)
}

func (i *interpreter) raceWalk(T types.Type, p *value, write bool) {
	if T != nil {
		switch U := T.Underlying().(type) {
		case *types.Struct:
			if v, ok := (*p).(structure); ok {
				for k := range v {
					if k < U.NumFields() {
						i.raceWalk(U.Field(k).Type(), &v[k], write)
					}
				}
				return
			}
		case *types.Array:
			if v, ok := (*p).(array); ok {
				for k := range v {
					i.raceWalk(U.Elem(), &v[k], write)
				}
				return
			}
		}
	}
	i.raceAccess(p, write, "")
}

// raceCell: an access to one leaf cell whose static type is not at hand (slice elements in copy/append).
func (i *interpreter) raceCell(p *value, write bool) {
	if !i.raceOn() || hbHarnessFrame(i.curFrame) {
		return
	}
	switch v := (*p).(type) {
	case structure:
		for k := range v {
			i.raceCell(&v[k], write)
		}
		return
	case array:
		for k := range v {
			i.raceCell(&v[k], write)
		}
		return
	}
	i.raceAccess(p, write, "")
}

// raceObj: an access to a map as a whole (Go's detector treats a map as one location too).
func (i *interpreter) raceObj(m *omap, write bool) {
	if m == nil || !i.raceOn() || hbHarnessFrame(i.curFrame) {
		return
	}
	i.raceAccess(m, write, "map ")
}

func (i *interpreter) raceAccess(key interface{}, write bool, what string) {
	rs := i.race
	if rs.ignore == nil {
		rs.ignore = map[*value]bool{}
		for g, cell := range i.globals {
			if strings.HasPrefix(g.Name(), "Verif") {
				rs.ignore[cell] = true
			}
		}
	}
	if p, ok := key.(*value); ok && rs.ignore[p] {
		return
	}
	t := i.curTask
	vc := *i.hbClock(t)
	rs.checked++
	sh := rs.shadow[key]
	if sh == nil {
		sh = &hbShadow{}
		rs.shadow[key] = sh
	}
	me := hbAccess{task: t.id, clk: vc.get(t.id)}
	// fast path: same task, same epoch
	if write && sh.hasW && sh.w.task == me.task && sh.w.clk == me.clk && len(sh.reads) == 0 {
		return
	}
	site := ""
	needSite := func() string {
		if site == "" && i.curFrame != nil {
			site = i.curFrame.site()
		}
		return site
	}
	if sh.hasW && sh.w.task != t.id && sh.w.clk > vc.get(sh.w.task) {
		i.raceReport(what, "write", sh.w, accessKind(write), hbAccess{t.id, me.clk, needSite()})
	}
	if write {
		for _, r := range sh.reads {
			if r.task != t.id && r.clk > vc.get(r.task) {
				i.raceReport(what, "read", r, "write", hbAccess{t.id, me.clk, needSite()})
			}
		}
		sh.w = hbAccess{t.id, me.clk, needSite()}
		sh.hasW = true
		sh.reads = sh.reads[:0]
		return
	}
	for k := range sh.reads {
		if sh.reads[k].task == t.id {
			if sh.reads[k].clk != me.clk {
				sh.reads[k] = hbAccess{t.id, me.clk, needSite()}
			}
			return
		}
	}
	sh.reads = append(sh.reads, hbAccess{t.id, me.clk, needSite()})
}

func accessKind(write bool) string {
	if write {
		return "write"
	}
	return "read"
}

func (i *interpreter) raceReport(what, k1 string, a hbAccess, k2 string, b hbAccess) {
	msg := fmt.Sprintf("data race on %scell: %s by task %d at %s  ||  %s by task %d at %s (no happens-before edge between them in this schedule)", what, k1, a.task, a.site, k2, b.task, b.site)
	key := a.site + "|" + b.site
	if i.race.seen[key] {
		return
	}
	i.race.seen[key] = true
	i.race.reports = append(i.race.reports, msg)
	if i.sched != nil {
		i.sched.note("%s", msg)
	}
}

// ---- timers ----

func (i *interpreter) hbArmTimer(tm *vtimer) {
	if i.race == nil || i.curTask == nil || i.sched == nil {
		return
	}
	tm.vc = i.hbClock(i.curTask).clone()
	i.hbTick(i.curTask)
}

// hbTimerTick: the runtime delivers a tick into the timer's channel; the arming happens before the receive.
func (i *interpreter) hbTimerTick(tm *vtimer) {
	if i.race == nil || tm.ch.cap == 0 {
		return
	}
	i.hbSync(chanSlot{tm.ch, tm.ch.sendx % tm.ch.cap}).join(tm.vc)
	tm.ch.sendx++
}

// modelFrame: is fr a frame of a library-model file?
func modelFrame(fr *frame) bool {
	if fr == nil || fr.fn == nil || len(ModelFiles) == 0 {
		return false
	}
	fn := fr.fn
	for fn.Parent() != nil {
		fn = fn.Parent()
	}
	if fn.Prog == nil || !fn.Pos().IsValid() {
		return false
	}
	return ModelFiles[fn.Prog.Fset.Position(fn.Pos()).Filename]
}

// hbAtomic: a sync/atomic operation on cell p (acquire + release), unless it is bookkeeping of a library model.
func (i *interpreter) hbAtomic(fr *frame, p *value) {
	if i.race == nil || modelFrame(fr) || (fr != nil && modelFrame(fr.caller)) {
		return
	}
	i.hbAcqRel(i.curTask, p)
}
