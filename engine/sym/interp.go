package sym

import (
	"os"
	"fmt"
	"go/token"
	"go/types"
	"runtime/debug"
	"slices"
	"strings"

	"golang.org/x/tools/go/ssa"

	"verif/engine/smt"
)

var traceInit = os.Getenv("GOSYMEX_TRACEINIT") != "" // initSteps

type continuation int

const (
	kNext continuation = iota
	kReturn
	kJump
)

type abortKind int

const (
	abInfeasible  abortKind = iota // Assume(false) / infeasible: path silently ends
	abUnsupported                  // something the engine cannot execute: inconclusive
	abUnwind                       // unwinding assertion hit: inconclusive
	abSolver                       // solver said unknown / error: inconclusive
	abSteps                        // step budget exhausted: inconclusive
	abDeadlock                     // all tasks blocked
	abKilled                       // task torn down at path end
	abEngine                       // internal error of the engine
	abDone                         // harness asked to stop the path (rt.Stop)
)

type pathAbort struct {
	kind abortKind
	msg  string
}

func (p *pathAbort) Error() string { return fmt.Sprintf("abort(%d): %s", p.kind, p.msg) }

type fnInfo struct {
	index map[ssa.Value]int
	n     int
	ninstr int
}

type deferred struct {
	fn    value
	args  []value
	instr *ssa.Defer
	tail  *deferred
}

type frame struct {
	i                *interpreter
	caller           *frame
	fn               *ssa.Function
	info             *fnInfo
	block, prevBlock *ssa.BasicBlock
	env              []value
	locals           []value
	defers           *deferred
	result           value
	panicking        bool
	panic            interface{}
	phitemps         []value
	cur              ssa.Instruction
	symIfs           map[ssa.Instruction]int
	task             *task
	harness          bool
	harnessKnown     bool
}

func (i *interpreter) infoFor(fn *ssa.Function) *fnInfo {
	if inf, ok := i.fnInfos[fn]; ok {
		return inf
	}
	inf := &fnInfo{index: map[ssa.Value]int{}}
	add := func(v ssa.Value) {
		inf.index[v] = inf.n
		inf.n++
	}
	for _, p := range fn.Params {
		add(p)
	}
	for _, p := range fn.FreeVars {
		add(p)
	}
	for _, b := range fn.Blocks {
		for _, ins := range b.Instrs {
			inf.ninstr++
			if v, ok := ins.(ssa.Value); ok {
				add(v)
			}
		}
	}
	i.fnInfos[fn] = inf
	return inf
}

func (fr *frame) get(key ssa.Value) value {
	switch key := key.(type) {
	case nil:
		return nil
	case *ssa.Function:
		return key
	case *ssa.Builtin:
		return key
	case *ssa.Const:
		return constValue(key)
	case *ssa.Global:
		return fr.i.globalAddr(key)
	}
	if idx, ok := fr.info.index[key]; ok {
		return fr.env[idx]
	}
	panic(fmt.Sprintf("get: no value for %T: %v", key, key.Name()))
}

func (fr *frame) set(key ssa.Value, v value) {
	fr.env[fr.info.index[key]] = v
}

func (fr *frame) runDefer(d *deferred) {
	var ok bool
	defer func() {
		if !ok {
			r := recover()
			if pa, isAbort := r.(*pathAbort); isAbort {
				panic(pa)
			}
			fr.panicking = true
			fr.panic = r
		}
	}()
	fr.i.call(fr, d.instr.Pos(), d.fn, d.args)
	ok = true
}

func (fr *frame) runDefers() {
	for d := fr.defers; d != nil; d = d.tail {
		fr.runDefer(d)
	}
	fr.defers = nil
	if fr.panicking {
		panic(fr.panic)
	}
}

func (i *interpreter) pos(p token.Pos) string {
	if p == token.NoPos {
		return "?"
	}
	ps := i.prog.Fset.Position(p)
	return fmt.Sprintf("%s:%d", ps.Filename, ps.Line)
}

func (fr *frame) site() string {
	for f := fr; f != nil; f = f.caller {
		if f.cur != nil && f.cur.Pos() != token.NoPos {
			return fr.i.pos(f.cur.Pos()) + " in " + f.fn.String()
		}
	}
	return fr.fn.String()
}

// stack renders the interpreted call stack (innermost first).
func (fr *frame) stack(max int) []string {
	var out []string
	for f := fr; f != nil && len(out) < max; f = f.caller {
		p := "?"
		if f.cur != nil {
			p = fr.i.pos(f.cur.Pos())
		}
		out = append(out, f.fn.String()+" "+p)
	}
	return out
}

func (i *interpreter) runtimeError(msg string) *targetPanic {
	site := ""
	if i.curFrame != nil {
		site = i.curFrame.site()
	}
	var st []string
	if i.curFrame != nil {
		st = i.curFrame.stack(24)
	}
	return &targetPanic{v: iface{t: i.runtimeErrorString, v: msg}, site: site, rt: true, stack: st}
}

func (i *interpreter) nilDeref() *targetPanic {
	return i.runtimeError("runtime error: invalid memory address or nil pointer dereference")
}

func (i *interpreter) unsupported(msg string) *pathAbort {
	site := ""
	if i.curFrame != nil {
		site = " at " + strings.Join(i.curFrame.stack(6), " <- ")
	}
	return &pathAbort{kind: abUnsupported, msg: msg + site}
}

func (i *interpreter) lookupMethod(typ types.Type, meth *types.Func) *ssa.Function {
	return i.prog.LookupMethod(typ, meth.Pkg(), meth.Name())
}

func (i *interpreter) indexInt(idx value, n int, what string) int {
	if t, ok := idx.(*smt.Term); ok {
		c := i.ctx
		w := t.Sort.W
		// Treat as signed when the static type is signed; callers pass terms of
		// the operand's width, and negative values are out of range either way
		// when interpreted unsigned (they become huge).
		inRange := c.BVCmp(smt.OpULt, t, c.BVC(uint64(n), w))
		if !i.branch(inRange, nil) {
			panic(i.runtimeError(fmt.Sprintf("runtime error: index out of range [sym] with length %d (%s)", n, what)))
		}
		return int(i.concretize(t))
	}
	k := asInt64(idx)
	if k < 0 || k >= int64(n) {
		panic(i.runtimeError(fmt.Sprintf("runtime error: index out of range [%d] with length %d", k, n)))
	}
	return int(k)
}

// concInt forces an integer value to be concrete (forking over feasible values).
func (i *interpreter) concInt(v value) int64 {
	if t, ok := v.(*smt.Term); ok {
		return smt.Sext(i.concretize(t), t.Sort.W)
	}
	return asInt64(v)
}

func (i *interpreter) visitInstr(fr *frame, instr ssa.Instruction) continuation {
	switch instr := instr.(type) {
	case *ssa.DebugRef:

	case *ssa.UnOp:
		fr.set(instr, i.unop(instr, fr.get(instr.X)))

	case *ssa.BinOp:
		fr.set(instr, i.binop(instr.Op, instr.X.Type(), instr.Y.Type(), fr.get(instr.X), fr.get(instr.Y)))

	case *ssa.Call:
		fn, args := i.prepareCall(fr, &instr.Call)
		fr.set(instr, i.call(fr, instr.Pos(), fn, args))

	case *ssa.ChangeInterface:
		fr.set(instr, fr.get(instr.X))

	case *ssa.ChangeType:
		fr.set(instr, fr.get(instr.X))

	case *ssa.Convert:
		fr.set(instr, i.conv(instr.Type(), instr.X.Type(), fr.get(instr.X)))

	case *ssa.SliceToArrayPointer:
		fr.set(instr, i.sliceToArrayPointer(instr.Type(), instr.X.Type(), fr.get(instr.X)))

	case *ssa.MakeInterface:
		fr.set(instr, iface{t: instr.X.Type(), v: fr.get(instr.X)})

	case *ssa.Extract:
		fr.set(instr, fr.get(instr.Tuple).(tuple)[instr.Index])

	case *ssa.Slice:
		fr.set(instr, i.slice(fr.get(instr.X), fr.get(instr.Low), fr.get(instr.High), fr.get(instr.Max)))

	case *ssa.Return:
		switch len(instr.Results) {
		case 0:
		case 1:
			fr.result = fr.get(instr.Results[0])
		default:
			res := make([]value, 0, len(instr.Results))
			for _, r := range instr.Results {
				res = append(res, fr.get(r))
			}
			fr.result = tuple(res)
		}
		fr.block = nil
		return kReturn

	case *ssa.RunDefers:
		fr.runDefers()

	case *ssa.Panic:
		panic(&targetPanic{v: fr.get(instr.X), site: fr.site(), stack: fr.stack(24)})

	case *ssa.Send:
		i.chanSend(fr.get(instr.Chan).(*vchan), fr.get(instr.X))

	case *ssa.Store:
		p := fr.get(instr.Addr).(*value)
		if p == nil {
			panic(i.nilDeref())
		}
		i.noteStoreVal(p, fr.get(instr.Val))
		if i.race != nil {
			i.raceWrite(mustDeref(instr.Addr.Type()), p)
		}
		store(mustDeref(instr.Addr.Type()), p, fr.get(instr.Val))

	case *ssa.If:
		succ := 1
		switch c := fr.get(instr.Cond).(type) {
		case bool:
			if c {
				succ = 0
			}
		case *smt.Term:
			if i.branch(c, fr) {
				succ = 0
			}
		}
		fr.prevBlock, fr.block = fr.block, fr.block.Succs[succ]
		return kJump

	case *ssa.Jump:
		fr.prevBlock, fr.block = fr.block, fr.block.Succs[0]
		return kJump

	case *ssa.Defer:
		fn, args := i.prepareCall(fr, &instr.Call)
		defers := &fr.defers
		if into := fr.get(instr.DeferStack); into != nil {
			defers = into.(**deferred)
		}
		*defers = &deferred{fn: fn, args: args, instr: instr, tail: *defers}

	case *ssa.Go:
		fn, args := i.prepareCall(fr, &instr.Call)
		i.spawn(fr, instr, fn, args)

	case *ssa.MakeChan:
		fr.set(instr, &vchan{cap: int(i.concInt(fr.get(instr.Size))), elem: instr.Type().Underlying().(*types.Chan).Elem(), id: i.nextChanID()})

	case *ssa.Alloc:
		var addr *value
		if instr.Heap {
			addr = new(value)
			fr.set(instr, addr)
		} else {
			addr = fr.get(instr).(*value)
		}
		*addr = zero(mustDeref(instr.Type()))

	case *ssa.MakeSlice:
		capv := i.concInt(fr.get(instr.Cap))
		lenv := i.concInt(fr.get(instr.Len))
		if lenv < 0 || capv < lenv {
			panic(i.runtimeError("runtime error: makeslice: len out of range"))
		}
		if capv > 1<<24 {
			panic(i.unsupported(fmt.Sprintf("makeslice of %d elements", capv)))
		}
		s := make([]value, capv)
		tElt := instr.Type().Underlying().(*types.Slice).Elem()
		for k := range s {
			s[k] = zero(tElt)
		}
		fr.set(instr, s[:lenv])

	case *ssa.MakeMap:
		fr.set(instr, makeMap(instr.Type().Underlying().(*types.Map).Key()))

	case *ssa.Range:
		if m, ok := fr.get(instr.X).(*omap); ok && i.race != nil {
			i.raceObj(m, false)
		}
		fr.set(instr, i.rangeIter(fr.get(instr.X), instr.X.Type()))

	case *ssa.Next:
		fr.set(instr, fr.get(instr.Iter).(iter).next(i))

	case *ssa.FieldAddr:
		p := fr.get(instr.X).(*value)
		if p == nil {
			panic(i.nilDeref())
		}
		fr.set(instr, &(*p).(structure)[instr.Field])

	case *ssa.Field:
		fr.set(instr, fr.get(instr.X).(structure)[instr.Field])

	case *ssa.IndexAddr:
		x := fr.get(instr.X)
		idx := fr.get(instr.Index)
		switch x := x.(type) {
		case []value:
			fr.set(instr, &x[i.indexInt(idx, len(x), "slice")])
		case *value:
			if x == nil {
				panic(i.nilDeref())
			}
			a := (*x).(array)
			fr.set(instr, &a[i.indexInt(idx, len(a), "array")])
		default:
			panic(fmt.Sprintf("unexpected x type in IndexAddr: %T", x))
		}

	case *ssa.Index:
		x := fr.get(instr.X)
		idx := fr.get(instr.Index)
		switch x := x.(type) {
		case array:
			fr.set(instr, copyVal(x[i.indexInt(idx, len(x), "array")]))
		case string:
			fr.set(instr, x[i.indexInt(idx, len(x), "string")])
		case *symStr:
			fr.set(instr, x.b[i.indexInt(idx, len(x.b), "string")])
		default:
			panic(fmt.Sprintf("unexpected x type in Index: %T", x))
		}

	case *ssa.Lookup:
		m := fr.get(instr.X).(*omap)
		if i.race != nil {
			i.raceObj(m, false)
		}
		v, ok := i.mapLookup(m, fr.get(instr.Index))
		if !ok {
			v = zero(instr.X.Type().Underlying().(*types.Map).Elem())
		} else {
			v = copyVal(v)
		}
		if instr.CommaOk {
			v = tuple{v, ok}
		}
		fr.set(instr, v)

	case *ssa.MapUpdate:
		if i.race != nil {
			i.raceObj(fr.get(instr.Map).(*omap), true)
		}
		i.mapInsert(fr.get(instr.Map).(*omap), fr.get(instr.Key), fr.get(instr.Value))

	case *ssa.TypeAssert:
		fr.set(instr, i.typeAssert(instr, fr.get(instr.X).(iface)))

	case *ssa.MakeClosure:
		bindings := make([]value, 0, len(instr.Bindings))
		for _, b := range instr.Bindings {
			bindings = append(bindings, fr.get(b))
		}
		fr.set(instr, &closure{instr.Fn.(*ssa.Function), bindings})

	case *ssa.Select:
		fr.set(instr, i.selectOp(fr, instr))

	default:
		panic(fmt.Sprintf("unexpected instruction: %T", instr))
	}
	return kNext
}

func (i *interpreter) rangeIter(x value, t types.Type) iter {
	switch x := x.(type) {
	case *omap:
		it := &mapIter{m: x}
		if x != nil {
			it.end = len(x.keys)
			if i.mapOrderNondet && x.n >= 2 && x.n <= 3 {
				it.perm = i.choosePerm(x)
				it.end = len(it.perm)
			}
		}
		return it
	case string, *symStr:
		return &strIter{s: x}
	}
	panic(fmt.Sprintf("cannot range over %T", x))
}

func (i *interpreter) slice(x, lo, hi, max value) value {
	var Len, Cap int
	switch x := x.(type) {
	case string:
		Len = len(x)
		Cap = Len
	case *symStr:
		Len = len(x.b)
		Cap = Len
	case []value:
		Len = len(x)
		Cap = cap(x)
	case *value:
		if x == nil {
			panic(i.nilDeref())
		}
		a := (*x).(array)
		Len = len(a)
		Cap = cap(a)
	}
	l := int64(0)
	if lo != nil {
		l = i.concInt(lo)
	}
	h := int64(Len)
	if hi != nil {
		h = i.concInt(hi)
	}
	m := int64(Cap)
	if max != nil {
		m = i.concInt(max)
	}
	if _, isStr := x.(string); isStr {
		Cap = Len
	}
	if l < 0 || h < l || m < h || m > int64(Cap) {
		panic(i.runtimeError(fmt.Sprintf("runtime error: slice bounds out of range [%d:%d:%d] with capacity %d", l, h, m, Cap)))
	}
	switch x := x.(type) {
	case string:
		return x[l:h]
	case *symStr:
		return mkStr(x.b[l:h])
	case []value:
		return x[l:h:m]
	case *value:
		a := (*x).(array)
		return []value(a)[l:h:m]
	}
	panic(fmt.Sprintf("slice: unexpected X type: %T", x))
}

func (i *interpreter) prepareCall(fr *frame, call *ssa.CallCommon) (fn value, args []value) {
	v := fr.get(call.Value)
	if call.Method == nil {
		fn = v
	} else {
		recv := v.(iface)
		if recv.t == nil {
			panic(i.nilDeref())
		}
		if recv.t == rtypeType {
			fn = i.rtypeMethod(call.Method.Name())
			args = append(args, recv.v)
			for _, arg := range call.Args {
				args = append(args, fr.get(arg))
			}
			return
		}
		f := i.lookupMethod(recv.t, call.Method)
		if f == nil {
			panic(fmt.Sprintf("method set for dynamic type %v does not contain %s", recv.t, call.Method))
		}
		fn = f
		args = append(args, recv.v)
	}
	for _, arg := range call.Args {
		args = append(args, fr.get(arg))
	}
	return
}

func (i *interpreter) call(caller *frame, callpos token.Pos, fn value, args []value) value {
	switch fn := fn.(type) {
	case *ssa.Function:
		if fn == nil {
			panic(i.nilDeref())
		}
		return i.callSSA(caller, callpos, fn, args, nil)
	case *closure:
		return i.callSSA(caller, callpos, fn.Fn, args, fn.Env)
	case *ssa.Builtin:
		return i.callBuiltin(caller, callpos, fn, args)
	case *nativeFn:
		return fn.fn(i, args)
	}
	panic(fmt.Sprintf("cannot call %T", fn))
}

func (i *interpreter) callSSA(caller *frame, callpos token.Pos, fn *ssa.Function, args []value, env []value) value {
	fr := &frame{i: i, caller: caller, fn: fn}
	if caller != nil {
		fr.task = caller.task
	} else {
		fr.task = i.curTask
	}
	if fn.Parent() == nil {
		if fn.Pkg != nil && fn.Name() == "init" && fn.Synthetic != "" && i.inLazyInit > 0 && len(args) == 0 {
			// dependency initialisers are run lazily (see globalAddr)
			return nil
		}
		if intr := i.intrinsicFor(fn); intr != nil {
			saved := i.curFrame
			i.curFrame = fr
			fr.cur = nil
			if caller != nil {
				fr.cur = caller.cur
			}
			r := intr(fr, args)
			i.curFrame = saved
			if _, ft := r.(fallThrough); !ft {
				return r
			}
		}
		if fn.Blocks == nil {
			panic(i.unsupported("no code for function: " + fn.String()))
		}
	}
	if fn.TypeParams().Len() > 0 && len(fn.TypeArgs()) == 0 {
		panic(i.unsupported("uninstantiated generic function " + fn.String()))
	}
	if i.depth > 2000 {
		panic(i.unsupported("call depth exceeded in " + fn.String()))
	}
	i.depth++
	inf := i.infoFor(fn)
	i.noteFunc(fn, inf)
	fr.info = inf
	fr.env = make([]value, inf.n)
	fr.block = fn.Blocks[0]
	fr.locals = make([]value, len(fn.Locals))
	for k, l := range fn.Locals {
		fr.locals[k] = zero(mustDeref(l.Type()))
		fr.env[inf.index[l]] = &fr.locals[k]
	}
	for k, p := range fn.Params {
		fr.env[inf.index[p]] = args[k]
	}
	for k, fv := range fn.FreeVars {
		fr.env[inf.index[fv]] = env[k]
	}
	saved := i.curFrame
	for fr.block != nil {
		i.runFrame(fr)
	}
	i.curFrame = saved
	i.depth--
	return fr.result
}

func (i *interpreter) runFrame(fr *frame) {
	defer func() {
		if fr.block == nil {
			return
		}
		r := recover()
		switch p := r.(type) {
		case *pathAbort:
			panic(p)
		case *targetPanic:
			if p.site == "" {
				p.site = fr.site()
			}
		default:
			// engine bug or unexpected Go runtime error inside the engine
			panic(&pathAbort{kind: abEngine, msg: fmt.Sprintf("%v at %s\n%s", r, strings.Join(fr.stack(8), " <- "), debug.Stack())})
		}
		fr.panicking = true
		fr.panic = r
		i.curFrame = fr
		fr.runDefers()
		fr.block = fr.fn.Recover
		if fr.block == nil {
			// no named results: a recovered panic returns zero values
			fr.result = zeroResult(fr.fn)
		}
	}()
	for {
		i.curFrame = fr
		nonPhis := executePhis(fr)
		for _, instr := range nonPhis {
			i.steps++
			if i.steps > i.stepLimit {
				panic(&pathAbort{kind: abSteps, msg: fmt.Sprintf("step limit %d exceeded in %s", i.stepLimit, fr.fn)})
			}
			fr.cur = instr
			if i.visitInstr(fr, instr) == kReturn {
				return
			}
			i.curFrame = fr
		}
	}
}

func zeroResult(fn *ssa.Function) value {
	res := fn.Signature.Results()
	switch res.Len() {
	case 0:
		return nil
	case 1:
		return zero(res.At(0).Type())
	}
	t := make(tuple, res.Len())
	for k := range t {
		t[k] = zero(res.At(k).Type())
	}
	return t
}

func executePhis(fr *frame) []ssa.Instruction {
	firstNonPhi := -1
	for k, instr := range fr.block.Instrs {
		if _, ok := instr.(*ssa.Phi); !ok {
			firstNonPhi = k
			break
		}
	}
	nonPhis := fr.block.Instrs[firstNonPhi:]
	if firstNonPhi > 0 {
		phis := fr.block.Instrs[:firstNonPhi]
		predIndex := slices.Index(fr.block.Preds, fr.prevBlock)
		fr.phitemps = fr.phitemps[:0]
		for _, phi := range phis {
			phi := phi.(*ssa.Phi)
			fr.phitemps = append(fr.phitemps, fr.get(phi.Edges[predIndex]))
		}
		for k, phi := range phis {
			fr.set(phi.(*ssa.Phi), fr.phitemps[k])
		}
	}
	return nonPhis
}

func (i *interpreter) doRecover(caller *frame) value {
	if caller != nil && !caller.panicking && caller.caller != nil && caller.caller.panicking {
		caller.caller.panicking = false
		p := caller.caller.panic
		caller.caller.panic = nil
		switch p := p.(type) {
		case *targetPanic:
			return p.v
		default:
			panic(fmt.Sprintf("unexpected panic type %T in target call to recover()", p))
		}
	}
	return iface{}
}

func (i *interpreter) callBuiltin(caller *frame, callpos token.Pos, fn *ssa.Builtin, args []value) value {
	switch fn.Name() {
	case "append":
		if len(args) == 1 {
			return args[0]
		}
		var cp []value
		switch s := args[1].(type) {
		case string, *symStr:
			cp = strBytes(s)
		default:
			src := args[1].([]value)
			cp = make([]value, len(src))
			for k := range src {
				cp[k] = copyVal(src[k])
			}
		}
		dst := args[0].([]value)
		if i.race != nil {
			if src, ok := args[1].([]value); ok {
				for k := range src {
					i.raceCell(&src[k], false)
				}
			}
			if len(dst)+len(cp) <= cap(dst) {
				full := dst[:cap(dst)]
				for k := range cp {
					i.raceCell(&full[len(dst)+k], true)
				}
			}
		}
		if i.watch != nil && len(dst)+len(cp) <= cap(dst) {
			// in-place append: the cells between len and cap of the backing array are written
			full := dst[:cap(dst)]
			for k := range cp {
				i.noteStoreVal(&full[len(dst)+k], cp[k])
			}
		}
		return append(dst, cp...)

	case "copy":
		src := args[1]
		switch s := src.(type) {
		case string, *symStr:
			src = strBytes(s)
		}
		dst := args[0].([]value)
		ss := src.([]value)
		n := len(dst)
		if len(ss) < n {
			n = len(ss)
		}
		tmp := make([]value, n)
		for k := 0; k < n; k++ {
			tmp[k] = copyVal(ss[k])
		}
		if i.watch != nil {
			for k := 0; k < n; k++ {
				i.noteStoreVal(&dst[k], tmp[k])
			}
		}
		if i.race != nil {
			for k := 0; k < n; k++ {
				i.raceCell(&ss[k], false)
				i.raceCell(&dst[k], true)
			}
		}
		copy(dst, tmp)
		return n

	case "close":
		i.chanClose(args[0].(*vchan))
		return nil

	case "delete":
		if i.race != nil {
			i.raceObj(args[0].(*omap), true)
		}
		i.mapDelete(args[0].(*omap), args[1])
		return nil

	case "clear":
		switch x := args[0].(type) {
		case *omap:
			if x != nil {
				*x = *makeMap(x.keyT)
			}
		case []value:
			t := fn.Type().(*types.Signature).Params().At(0).Type().Underlying().(*types.Slice).Elem()
			for k := range x {
				x[k] = zero(t)
			}
		}
		return nil

	case "print", "println":
		return nil

	case "len":
		switch x := args[0].(type) {
		case string:
			return len(x)
		case *symStr:
			return len(x.b)
		case array:
			return len(x)
		case *value:
			return len((*x).(array))
		case []value:
			return len(x)
		case *symSlice:
			return x.n
		case *omap:
			return x.length()
		case *vchan:
			if x == nil {
				return 0
			}
			return len(x.buf)
		default:
			panic(fmt.Sprintf("len: illegal operand: %T", x))
		}

	case "cap":
		switch x := args[0].(type) {
		case array:
			return cap(x)
		case *value:
			return cap((*x).(array))
		case []value:
			return cap(x)
		case *symSlice:
			return x.n
		case *vchan:
			if x == nil {
				return 0
			}
			return x.cap
		default:
			panic(fmt.Sprintf("cap: illegal operand: %T", x))
		}

	case "min", "max":
		x := args[0]
		for _, y := range args[1:] {
			var lt value
			if fn.Name() == "min" {
				lt = i.binop(token.LSS, nil, nil, y, x)
			} else {
				lt = i.binop(token.GTR, nil, nil, y, x)
			}
			switch c := lt.(type) {
			case bool:
				if c {
					x = y
				}
			case *smt.Term:
				k := kindFor(x, nil)
				x = lower(k, i.ctx.Ite(c, i.termOf(y), i.termOf(x)))
			}
		}
		return x

	case "real":
		switch c := args[0].(type) {
		case complex64:
			return real(c)
		case complex128:
			return real(c)
		}
	case "imag":
		switch c := args[0].(type) {
		case complex64:
			return imag(c)
		case complex128:
			return imag(c)
		}
	case "complex":
		switch f := args[0].(type) {
		case float32:
			return complex(f, args[1].(float32))
		case float64:
			return complex(f, args[1].(float64))
		}

	case "panic":
		panic(&targetPanic{v: args[0], site: caller.site(), stack: caller.stack(24)})

	case "recover":
		return i.doRecover(caller)

	case "ssa:wrapnilchk":
		recv := args[0]
		if recv.(*value) == nil {
			panic(i.runtimeError(fmt.Sprintf("value method (%s).%s called using nil *%s pointer", toString(args[1]), toString(args[2]), toString(args[1]))))
		}
		return recv

	case "ssa:deferstack":
		return &caller.defers

	// package unsafe
	case "SliceData":
		s := args[0].([]value)
		if cap(s) == 0 {
			return (*value)(nil)
		}
		return &s[:1][0]
	case "Slice":
		p := args[0].(*value)
		n := int(i.concInt(args[1]))
		if p == nil {
			if n == 0 {
				return []value(nil)
			}
			panic(i.runtimeError("unsafe.Slice: ptr is nil and len is not zero"))
		}
		return unsafeSlice(p, n)
	case "String":
		p := args[0].(*value)
		n := int(i.concInt(args[1]))
		if n == 0 {
			return ""
		}
		return mkStr(unsafeSlice(p, n))
	case "StringData":
		b := strBytes(args[0])
		if len(b) == 0 {
			return (*value)(nil)
		}
		return &b[0]
	}
	panic(i.unsupported("built-in: " + fn.Name()))
}

// ---- lazy package initialisation and globals ----

func (i *interpreter) globalAddr(g *ssa.Global) *value {
	if p, ok := i.globals[g]; ok {
		return p
	}
	pkg := g.Pkg
	// allocate storage for all globals of the package
	for _, m := range pkg.Members {
		if gv, ok := m.(*ssa.Global); ok {
			cell := zero(mustDeref(gv.Type()))
			i.globals[gv] = &cell
		}
	}
	p := i.globals[g]
	if pkg.Pkg.Path() == "crypto/rand" {
		// the package initialiser is not executed (crypto/*): give Reader its documented value, a *reader
		if rt, ok := pkg.Members["reader"].(*ssa.Type); ok {
			if rg, ok := pkg.Members["Reader"].(*ssa.Global); ok {
				cell := zero(rt.Type())
				*i.globals[rg] = iface{t: types.NewPointer(rt.Type()), v: &cell}
			}
		}
	}
	if g.Name() == "init$guard" {
		return p
	}
	i.initPackage(pkg)
	return p
}

func (i *interpreter) initPackage(pkg *ssa.Package) {
	if i.pkgInit[pkg] != 0 {
		return
	}
	i.pkgInit[pkg] = 1
	if i.skipInit(pkg.Pkg.Path()) {
		i.pkgInit[pkg] = 2
		i.noteStub("package init skipped: " + pkg.Pkg.Path())
		return
	}
	initFn := pkg.Func("init")
	if initFn != nil && initFn.Blocks != nil {
		t0 := i.steps
		defer func() {
			if traceInit {
				fmt.Fprintf(os.Stderr, "[init] %s: %d steps (incl. nested)\n", pkg.Pkg.Path(), i.steps-t0)
			}
		}()
		i.inLazyInit++
		savedFrame, savedDepth := i.curFrame, i.depth
		i.callBody(initFn)
		i.curFrame, i.depth = savedFrame, savedDepth
		i.inLazyInit--
	}
	i.pkgInit[pkg] = 2
}

// callBody runs fn ignoring the "skip nested init" rule for fn itself.
func (i *interpreter) callBody(fn *ssa.Function) {
	saved := i.inLazyInit
	i.inLazyInit = 0
	// run with the rule off for the callee itself, but on for its nested init calls:
	fr := &frame{i: i, fn: fn, task: i.curTask}
	inf := i.infoFor(fn)
	fr.info = inf
	fr.env = make([]value, inf.n)
	fr.block = fn.Blocks[0]
	fr.locals = make([]value, len(fn.Locals))
	for k, l := range fn.Locals {
		fr.locals[k] = zero(mustDeref(l.Type()))
		fr.env[inf.index[l]] = &fr.locals[k]
	}
	i.inLazyInit = saved
	for fr.block != nil {
		i.runFrame(fr)
	}
}

func unsafeSlice(p *value, n int) []value {
	if n == 0 {
		return []value{}
	}
	return unsafeSliceImpl(p, n)
}
