package smt

import (
	"bufio"
	"fmt"
	"io"
	"os"
	"os/exec"
	"strconv"
	"strings"
	"time"
)

type Result int

const (
	Unsat Result = iota
	Sat
	Unknown // includes timeouts and any (error ...) line: never treated as "holds"
)

func (r Result) String() string { return [...]string{"unsat", "sat", "unknown"}[r] }

// SlowLog, when set, receives a line per query slower than 2 s.
var SlowLog io.Writer

type Stats struct {
	Sat, Unsat, Unknown, Errors int
	Time                        time.Duration
	Queries                     int
}

// Solver drives one long-lived solver process over a pipe.
type Solver struct {
	Name    string
	cmd     *exec.Cmd
	in      io.WriteCloser
	out     *bufio.Reader
	ctx     *Ctx
	defined map[int]bool
	declFn  int
	mark    int
	Stats   Stats
	Log     io.Writer // optional: every command sent
	LastErr string
	argv    []string
	dead    bool
}

func SolverArgv(name string, timeoutMs int) []string {
	switch name {
	case "z3", "z3-new":
		return []string{name, "-in", fmt.Sprintf("-t:%d", timeoutMs)}
	case "cvc5":
		return []string{"cvc5", "--incremental", "--produce-models", "--lang=smt2", fmt.Sprintf("--tlimit-per=%d", timeoutMs)}
	case "cvc5-int":
		// bit-vectors solved as integers modulo 2^k: decides chains of 64-bit add/sub/compare that bit-blasting does not
		return []string{"cvc5", "--incremental", "--produce-models", "--lang=smt2", "--solve-bv-as-int=sum", fmt.Sprintf("--tlimit-per=%d", timeoutMs)}
	}
	return []string{name}
}

func NewSolver(name string, ctx *Ctx, timeoutMs int) (*Solver, error) {
	s := &Solver{Name: name, ctx: ctx, argv: SolverArgv(name, timeoutMs)}
	if err := s.start(); err != nil {
		return nil, err
	}
	return s, nil
}

func (s *Solver) start() error {
	s.cmd = exec.Command(s.argv[0], s.argv[1:]...)
	in, err := s.cmd.StdinPipe()
	if err != nil {
		return err
	}
	out, err := s.cmd.StdoutPipe()
	if err != nil {
		return err
	}
	s.cmd.Stderr = os.Stderr
	if err := s.cmd.Start(); err != nil {
		return err
	}
	s.in = in
	s.out = bufio.NewReaderSize(out, 1<<16)
	s.dead = false
	s.defined = map[int]bool{}
	s.declFn = 0
	s.prelude()
	return nil
}

func (s *Solver) prelude() {
	if s.Name == "cvc5" || s.Name == "cvc5-int" {
		s.send("(set-logic ALL)")
	}
	s.send("(set-option :produce-models true)")
}

func (s *Solver) Close() {
	if s.cmd != nil && s.cmd.Process != nil {
		s.in.Close()
		s.cmd.Process.Kill()
		s.cmd.Wait()
	}
}

func (s *Solver) send(line string) {
	if s.Log != nil {
		io.WriteString(s.Log, line+"\n")
	}
	if s.dead {
		return
	}
	if _, err := io.WriteString(s.in, line+"\n"); err != nil {
		s.dead = true
	}
}

// SetCtx switches to a fresh term context (new path): resets the solver.
func (s *Solver) SetCtx(ctx *Ctx) {
	s.ctx = ctx
	s.Reset()
}

func (s *Solver) Reset() {
	if s.dead {
		s.Close()
		if err := s.start(); err != nil {
			s.LastErr = err.Error()
		}
		return
	}
	s.send("(reset)")
	s.prelude()
	s.defined = map[int]bool{}
	s.declFn = 0
}

func (s *Solver) define(t *Term) {
	if s.defined[t.ID] {
		return
	}
	// iterative post-order to survive deep DAGs
	type fr struct {
		t *Term
		i int
	}
	st := []fr{{t, 0}}
	for len(st) > 0 {
		top := &st[len(st)-1]
		if s.defined[top.t.ID] {
			st = st[:len(st)-1]
			continue
		}
		if top.i < len(top.t.Args) {
			a := top.t.Args[top.i]
			top.i++
			if !s.defined[a.ID] {
				st = append(st, fr{a, 0})
			}
			continue
		}
		n := top.t
		st = st[:len(st)-1]
		s.defined[n.ID] = true
		switch n.Op {
		case OpConst:
		case OpVar:
			s.send(fmt.Sprintf("(declare-const %s %s)", n.Name, n.Sort))
		default:
			if n.Op == OpApply {
				decls := s.ctx.FuncDecls()
				for ; s.declFn < len(decls); s.declFn++ {
					s.send(decls[s.declFn])
				}
			}
			s.send(fmt.Sprintf("(define-fun t%d () %s %s)", n.ID, n.Sort, Body(n)))
		}
	}
}

// Assert adds t permanently (until Reset).
func (s *Solver) Assert(t *Term) {
	if t.IsTrue() {
		return
	}
	s.define(t)
	s.send("(assert " + Ref(t) + ")")
}

// readUntilMark collects output lines up to the echo marker.
func (s *Solver) readUntilMark() []string {
	s.mark++
	m := fmt.Sprintf("<<m%d>>", s.mark)
	s.send(fmt.Sprintf("(echo \"%s\")", m))
	var lines []string
	if s.dead {
		return []string{"(error \"solver process dead\")"}
	}
	for {
		line, err := s.out.ReadString('\n')
		if strings.Contains(line, m) {
			return lines
		}
		line = strings.TrimSpace(line)
		if line != "" {
			lines = append(lines, line)
		}
		if err != nil {
			s.dead = true
			lines = append(lines, "(error \"solver pipe closed: "+err.Error()+"\")")
			return lines
		}
	}
}

// Check decides satisfiability of (asserted so far) ∧ extra...
func (s *Solver) Check(extra ...*Term) Result {
	for _, e := range extra {
		if e.IsFalse() {
			return Unsat
		}
	}
	for _, e := range extra {
		s.define(e)
	}
	t0 := time.Now()
	s.send("(push 1)")
	for _, e := range extra {
		if !e.IsTrue() {
			s.send("(assert " + Ref(e) + ")")
		}
	}
	s.send("(check-sat)")
	lines := s.readUntilMark()
	res := s.classify(lines)
	s.send("(pop 1)")
	s.account(res, t0)
	return res
}

// CheckTimeout is Check with a wall-clock limit enforced by killing the solver
// process; the caller must Reset() and re-assert its path condition when the
// returned flag `killed` is true. Used for feasibility pruning where unknown = keep.
func (s *Solver) CheckTimeout(d time.Duration, extra ...*Term) (res Result, killed bool) {
	for _, e := range extra {
		if e.IsFalse() {
			return Unsat, false
		}
	}
	for _, e := range extra {
		s.define(e)
	}
	t0 := time.Now()
	s.send("(push 1)")
	for _, e := range extra {
		if !e.IsTrue() {
			s.send("(assert " + Ref(e) + ")")
		}
	}
	s.send("(check-sat)")
	done := make(chan []string, 1)
	go func() { done <- s.readUntilMark() }()
	var lines []string
	select {
	case lines = <-done:
	case <-time.After(d):
		if s.cmd != nil && s.cmd.Process != nil {
			s.cmd.Process.Kill()
		}
		<-done
		s.dead = true
		s.LastErr = "feasibility query exceeded " + d.String()
		s.account(Unknown, t0)
		return Unknown, true
	}
	res = s.classify(lines)
	s.send("(pop 1)")
	s.account(res, t0)
	return res, s.dead
}

// CheckModel is Check but, when sat, also returns values of vars (bits) before popping.
func (s *Solver) CheckModel(vars []*Term, extra ...*Term) (Result, map[string]uint64) {
	for _, e := range extra {
		if e.IsFalse() {
			return Unsat, nil
		}
	}
	for _, e := range extra {
		s.define(e)
	}
	for _, v := range vars {
		s.define(v)
	}
	t0 := time.Now()
	s.send("(push 1)")
	for _, e := range extra {
		if !e.IsTrue() {
			s.send("(assert " + Ref(e) + ")")
		}
	}
	s.send("(check-sat)")
	lines := s.readUntilMark()
	res := s.classify(lines)
	var model map[string]uint64
	if res == Sat {
		model = map[string]uint64{}
		// chunk to keep lines reasonable
		for i := 0; i < len(vars); i += 64 {
			j := i + 64
			if j > len(vars) {
				j = len(vars)
			}
			var sb strings.Builder
			sb.WriteString("(get-value (")
			for _, v := range vars[i:j] {
				sb.WriteString(Ref(v))
				sb.WriteByte(' ')
			}
			sb.WriteString("))")
			s.send(sb.String())
			out := strings.Join(s.readUntilMark(), " ")
			if strings.Contains(out, "(error") {
				s.LastErr = out
				res = Unknown
				break
			}
			vals := parseValues(out)
			if len(vals) != j-i {
				s.LastErr = "get-value parse: " + out
				res = Unknown
				break
			}
			for k, v := range vars[i:j] {
				model[keyOf(v)] = vals[k]
			}
		}
	}
	s.send("(pop 1)")
	s.account(res, t0)
	return res, model
}

// CheckModelTimeout is CheckModel bounded by a wall-clock limit (kills the solver
// process when exceeded; the caller must then Reset and re-assert).
func (s *Solver) CheckModelTimeout(d time.Duration, vars []*Term, extra ...*Term) (Result, map[string]uint64, bool) {
	type out struct {
		r Result
		m map[string]uint64
	}
	done := make(chan out, 1)
	go func() {
		r, m := s.CheckModel(vars, extra...)
		done <- out{r, m}
	}()
	select {
	case o := <-done:
		return o.r, o.m, s.dead
	case <-time.After(d):
		if s.cmd != nil && s.cmd.Process != nil {
			s.cmd.Process.Kill()
		}
		<-done
		s.dead = true
		s.LastErr = "model query exceeded " + d.String()
		return Unknown, nil, true
	}
}

func keyOf(v *Term) string {
	if v.Op == OpVar {
		return v.Name
	}
	return fmt.Sprintf("t%d", v.ID)
}

func KeyOf(v *Term) string { return keyOf(v) }

func (s *Solver) account(res Result, t0 time.Time) {
	if s.Log != nil {
		io.WriteString(s.Log, "; => "+res.String()+"\n")
	}
	s.Stats.Queries++
	s.Stats.Time += time.Since(t0)
	if SlowLog != nil && time.Since(t0) > 2*time.Second {
		fmt.Fprintf(SlowLog, "slow query %.1fs => %s\n", time.Since(t0).Seconds(), res)
	}
	switch res {
	case Sat:
		s.Stats.Sat++
	case Unsat:
		s.Stats.Unsat++
	default:
		s.Stats.Unknown++
	}
}

func (s *Solver) classify(lines []string) Result {
	res := Unknown
	got := false
	for _, l := range lines {
		if strings.HasPrefix(l, "(error \"solver pipe closed") || strings.HasPrefix(l, "(error \"solver process dead") {
			// our own marker for a killed/dead solver process: an unknown answer, not a solver error line
			s.LastErr = l
			return Unknown
		}
		if strings.HasPrefix(l, "(error") {
			s.Stats.Errors++
			s.LastErr = l
			if SlowLog != nil {
				fmt.Fprintf(SlowLog, "solver error line: %s\n", l)
			}
			return Unknown
		}
		switch l {
		case "sat":
			res, got = Sat, true
		case "unsat":
			res, got = Unsat, true
		case "unknown", "timeout":
			res, got = Unknown, true
			s.LastErr = l
		}
	}
	if !got {
		s.LastErr = "no answer: " + strings.Join(lines, " | ")
		return Unknown
	}
	return res
}

// parseValues extracts, in order, the value of each (name value) pair in a get-value answer.
func parseValues(out string) []uint64 {
	// tokenise into s-expr
	toks := tokenize(out)
	pos := 0
	var parse func() interface{}
	parse = func() interface{} {
		if pos >= len(toks) {
			return nil
		}
		t := toks[pos]
		pos++
		if t == "(" {
			var l []interface{}
			for pos < len(toks) && toks[pos] != ")" {
				l = append(l, parse())
			}
			pos++
			return l
		}
		return t
	}
	root, _ := parse().([]interface{})
	var vals []uint64
	for _, p := range root {
		pair, ok := p.([]interface{})
		if !ok || len(pair) != 2 {
			return nil
		}
		v, ok := sexprValue(pair[1])
		if !ok {
			return nil
		}
		vals = append(vals, v)
	}
	return vals
}

func sexprValue(e interface{}) (uint64, bool) {
	switch e := e.(type) {
	case string:
		switch {
		case e == "true":
			return 1, true
		case e == "false":
			return 0, true
		case strings.HasPrefix(e, "#x"):
			v, err := strconv.ParseUint(e[2:], 16, 64)
			return v, err == nil
		case strings.HasPrefix(e, "#b"):
			v, err := strconv.ParseUint(e[2:], 2, 64)
			return v, err == nil
		}
	case []interface{}:
		// (_ bvN w)
		if len(e) == 3 {
			if h, ok := e[0].(string); ok && h == "_" {
				if n, ok := e[1].(string); ok && strings.HasPrefix(n, "bv") {
					v, err := strconv.ParseUint(n[2:], 10, 64)
					return v, err == nil
				}
			}
		}
	}
	return 0, false
}

func tokenize(s string) []string {
	var toks []string
	i := 0
	for i < len(s) {
		c := s[i]
		switch {
		case c == '(' || c == ')':
			toks = append(toks, string(c))
			i++
		case c == ' ' || c == '\n' || c == '\t' || c == '\r':
			i++
		case c == '"':
			j := i + 1
			for j < len(s) && s[j] != '"' {
				j++
			}
			toks = append(toks, s[i:min(j+1, len(s))])
			i = j + 1
		default:
			j := i
			for j < len(s) && !strings.ContainsRune("() \n\t\r", rune(s[j])) {
				j++
			}
			toks = append(toks, s[i:j])
			i = j
		}
	}
	return toks
}
