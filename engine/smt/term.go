// Package smt holds the hash-consed term DAG the symbolic interpreter builds,
// with constant folding, and its SMT-LIB2 rendering.
package smt

import (
	"fmt"
	"math"
	"math/bits"
	"strings"
)

type Kind uint8

const (
	KBool Kind = iota
	KBV
	KFP // IEEE double only
)

type Sort struct {
	K Kind
	W int // bit width for KBV
}

var Bool = Sort{K: KBool}
var FP64 = Sort{K: KFP}

func BV(w int) Sort { return Sort{K: KBV, W: w} }

func (s Sort) String() string {
	switch s.K {
	case KBool:
		return "Bool"
	case KBV:
		return fmt.Sprintf("(_ BitVec %d)", s.W)
	default:
		return "(_ FloatingPoint 11 53)"
	}
}

type Op uint8

const (
	OpVar Op = iota
	OpConst
	OpNot
	OpAnd
	OpOr
	OpIte
	OpEq
	OpAdd
	OpSub
	OpMul
	OpUDiv
	OpSDiv
	OpURem
	OpSRem
	OpBAnd
	OpBOr
	OpBXor
	OpBNot
	OpNeg
	OpShl
	OpLShr
	OpAShr
	OpULt
	OpULe
	OpSLt
	OpSLe
	OpConcat
	OpExtract // I1=hi I2=lo
	OpZExt    // I1=extra bits
	OpSExt
	OpFAdd
	OpFSub
	OpFMul
	OpFDiv
	OpFNeg
	OpFEq
	OpFLt
	OpFLe
	OpFIsNaN
	OpSToF  // signed bv -> fp
	OpUToF  // unsigned bv -> fp
	OpFToS  // fp -> signed bv (I1 = width) RTZ
	OpFToU  // fp -> unsigned bv
	OpBToF  // reinterpret 64 bits as fp
	OpApply // uninterpreted function: Name, args
)

var opNames = map[Op]string{
	OpNot: "not", OpAnd: "and", OpOr: "or", OpIte: "ite", OpEq: "=",
	OpAdd: "bvadd", OpSub: "bvsub", OpMul: "bvmul", OpUDiv: "bvudiv", OpSDiv: "bvsdiv",
	OpURem: "bvurem", OpSRem: "bvsrem", OpBAnd: "bvand", OpBOr: "bvor", OpBXor: "bvxor",
	OpBNot: "bvnot", OpNeg: "bvneg", OpShl: "bvshl", OpLShr: "bvlshr", OpAShr: "bvashr",
	OpULt: "bvult", OpULe: "bvule", OpSLt: "bvslt", OpSLe: "bvsle", OpConcat: "concat",
	OpFAdd: "fp.add RNE", OpFSub: "fp.sub RNE", OpFMul: "fp.mul RNE", OpFDiv: "fp.div RNE",
	OpFNeg: "fp.neg", OpFEq: "fp.eq", OpFLt: "fp.lt", OpFLe: "fp.leq", OpFIsNaN: "fp.isNaN",
	OpSToF: "(_ to_fp 11 53) RNE", OpUToF: "(_ to_fp_unsigned 11 53) RNE",
	OpBToF: "(_ to_fp 11 53)",
}

type Term struct {
	ID   int
	Op   Op
	Sort Sort
	Args []*Term
	C    uint64 // constant payload (bool: 0/1, bv: bits, fp: ieee bits)
	Name string // variable / uninterpreted function name
	I1   int
	I2   int
}

func (t *Term) IsConst() bool { return t.Op == OpConst }
func (t *Term) IsTrue() bool  { return t.Op == OpConst && t.Sort.K == KBool && t.C == 1 }
func (t *Term) IsFalse() bool { return t.Op == OpConst && t.Sort.K == KBool && t.C == 0 }

// Ctx is a hash-consing context. Not safe for concurrent use: one per worker.
type Ctx struct {
	tab    map[string]*Term
	terms  []*Term
	vars   []*Term
	funcs  map[string]string // uninterpreted function name -> declaration
	funcsO []string
	hashes map[int][2]uint64
	varsMemo map[int][]int
	fnIDs  map[string]int
	True   *Term
	False  *Term
}

func NewCtx() *Ctx {
	c := &Ctx{tab: map[string]*Term{}, funcs: map[string]string{}}
	c.False = c.mk(&Term{Op: OpConst, Sort: Bool, C: 0})
	c.True = c.mk(&Term{Op: OpConst, Sort: Bool, C: 1})
	return c
}

func (c *Ctx) NumTerms() int  { return len(c.terms) }
func (c *Ctx) Vars() []*Term  { return c.vars }
func (c *Ctx) Term(id int) *Term { return c.terms[id] }

func (c *Ctx) mk(t *Term) *Term {
	var sb strings.Builder
	fmt.Fprintf(&sb, "%d|%d|%d|%d|%d|%d|%s|", t.Op, t.Sort.K, t.Sort.W, t.C, t.I1, t.I2, t.Name)
	for _, a := range t.Args {
		fmt.Fprintf(&sb, "%d,", a.ID)
	}
	k := sb.String()
	if e, ok := c.tab[k]; ok {
		return e
	}
	t.ID = len(c.terms)
	c.terms = append(c.terms, t)
	c.tab[k] = t
	if t.Op == OpVar {
		c.vars = append(c.vars, t)
	}
	return t
}

func Mask(w int) uint64 {
	if w >= 64 {
		return ^uint64(0)
	}
	return (uint64(1) << uint(w)) - 1
}

func Sext(v uint64, w int) int64 {
	if w >= 64 {
		return int64(v)
	}
	sh := uint(64 - w)
	return int64(v<<sh) >> sh
}

func (c *Ctx) Var(name string, s Sort) *Term {
	return c.mk(&Term{Op: OpVar, Sort: s, Name: name})
}

func (c *Ctx) BoolC(b bool) *Term {
	if b {
		return c.True
	}
	return c.False
}

func (c *Ctx) BVC(v uint64, w int) *Term {
	return c.mk(&Term{Op: OpConst, Sort: BV(w), C: v & Mask(w)})
}

func (c *Ctx) FPC(f float64) *Term {
	return c.mk(&Term{Op: OpConst, Sort: FP64, C: math.Float64bits(f)})
}

func (t *Term) Float() float64 { return math.Float64frombits(t.C) }

func (c *Ctx) Not(a *Term) *Term {
	if a.IsConst() {
		return c.BoolC(a.C == 0)
	}
	if a.Op == OpNot {
		return a.Args[0]
	}
	return c.mk(&Term{Op: OpNot, Sort: Bool, Args: []*Term{a}})
}

func (c *Ctx) And(a, b *Term) *Term {
	if a.IsConst() {
		if a.C == 0 {
			return c.False
		}
		return b
	}
	if b.IsConst() {
		if b.C == 0 {
			return c.False
		}
		return a
	}
	if a == b {
		return a
	}
	return c.mk(&Term{Op: OpAnd, Sort: Bool, Args: []*Term{a, b}})
}

func (c *Ctx) Or(a, b *Term) *Term {
	if a.IsConst() {
		if a.C == 1 {
			return c.True
		}
		return b
	}
	if b.IsConst() {
		if b.C == 1 {
			return c.True
		}
		return a
	}
	if a == b {
		return a
	}
	return c.mk(&Term{Op: OpOr, Sort: Bool, Args: []*Term{a, b}})
}

func (c *Ctx) AndN(ts ...*Term) *Term {
	r := c.True
	for _, t := range ts {
		r = c.And(r, t)
	}
	return r
}

func (c *Ctx) OrN(ts ...*Term) *Term {
	r := c.False
	for _, t := range ts {
		r = c.Or(r, t)
	}
	return r
}

func (c *Ctx) Implies(a, b *Term) *Term { return c.Or(c.Not(a), b) }

func (c *Ctx) Ite(cond, a, b *Term) *Term {
	if cond.IsConst() {
		if cond.C == 1 {
			return a
		}
		return b
	}
	if a == b {
		return a
	}
	if a.Sort.K == KBool {
		if a.IsTrue() && b.IsFalse() {
			return cond
		}
		if a.IsFalse() && b.IsTrue() {
			return c.Not(cond)
		}
	}
	return c.mk(&Term{Op: OpIte, Sort: a.Sort, Args: []*Term{cond, a, b}})
}

// Eq is structural equality (SMT "="): on FP it distinguishes +0/-0 and equates NaNs.
func (c *Ctx) Eq(a, b *Term) *Term {
	if a == b {
		return c.True
	}
	if a.IsConst() && b.IsConst() {
		if a.Sort.K == KFP {
			fa, fb := a.Float(), b.Float()
			if math.IsNaN(fa) || math.IsNaN(fb) {
				return c.BoolC(math.IsNaN(fa) && math.IsNaN(fb))
			}
		}
		return c.BoolC(a.C == b.C)
	}
	if a.Sort.K == KBool {
		if a.IsConst() {
			a, b = b, a
		}
		if b.IsTrue() {
			return a
		}
		if b.IsFalse() {
			return c.Not(a)
		}
	}
	if a.ID > b.ID {
		a, b = b, a
	}
	return c.mk(&Term{Op: OpEq, Sort: Bool, Args: []*Term{a, b}})
}

// FoldBV folds a binary bit-vector operation on constants (SMT-LIB semantics).
func FoldBV(op Op, x, y uint64, w int) (uint64, bool) {
	m := Mask(w)
	switch op {
	case OpAdd:
		return (x + y) & m, true
	case OpSub:
		return (x - y) & m, true
	case OpMul:
		return (x * y) & m, true
	case OpUDiv:
		if y == 0 {
			return m, true
		}
		return (x / y) & m, true
	case OpURem:
		if y == 0 {
			return x, true
		}
		return (x % y) & m, true
	case OpSDiv:
		if y == 0 {
			if Sext(x, w) < 0 {
				return 1, true
			}
			return m, true
		}
		sx, sy := Sext(x, w), Sext(y, w)
		if sy == -1 {
			return uint64(-sx) & m, true
		}
		return uint64(sx/sy) & m, true
	case OpSRem:
		if y == 0 {
			return x, true
		}
		sx, sy := Sext(x, w), Sext(y, w)
		if sy == -1 {
			return 0, true
		}
		return uint64(sx%sy) & m, true
	case OpBAnd:
		return x & y, true
	case OpBOr:
		return x | y, true
	case OpBXor:
		return x ^ y, true
	case OpShl:
		if y >= uint64(w) {
			return 0, true
		}
		return (x << y) & m, true
	case OpLShr:
		if y >= uint64(w) {
			return 0, true
		}
		return (x >> y) & m, true
	case OpAShr:
		sx := Sext(x, w)
		if y >= uint64(w) {
			y = uint64(w - 1)
		}
		return uint64(sx>>y) & m, true
	}
	return 0, false
}

func (c *Ctx) BVBin(op Op, a, b *Term) *Term {
	w := a.Sort.W
	if a.Sort != b.Sort {
		panic(fmt.Sprintf("smt: sort mismatch in %s: %v vs %v", opNames[op], a.Sort, b.Sort))
	}
	if a.IsConst() && b.IsConst() {
		if v, ok := FoldBV(op, a.C, b.C, w); ok {
			return c.BVC(v, w)
		}
	}
	// light algebra
	switch op {
	case OpAdd, OpBOr, OpBXor:
		if a.IsConst() && a.C == 0 {
			return b
		}
		if b.IsConst() && b.C == 0 {
			return a
		}
		// x + (y - x) = y ; (y - x) + x = y
		if op == OpAdd {
			if b.Op == OpSub && len(b.Args) == 2 && b.Args[1] == a {
				return b.Args[0]
			}
			if a.Op == OpSub && len(a.Args) == 2 && a.Args[1] == b {
				return a.Args[0]
			}
		}
	case OpSub, OpShl, OpLShr, OpAShr:
		if b.IsConst() && b.C == 0 {
			return a
		}
		if op == OpSub && a == b {
			return c.BVC(0, w)
		}
		// (x + y) - x = y ; (x + y) - y = x   (modular arithmetic: always valid)
		if op == OpSub && a.Op == OpAdd && len(a.Args) == 2 {
			if a.Args[0] == b {
				return a.Args[1]
			}
			if a.Args[1] == b {
				return a.Args[0]
			}
		}
	case OpBAnd:
		if a.IsConst() && a.C == 0 || b.IsConst() && b.C == 0 {
			return c.BVC(0, w)
		}
		if a.IsConst() && a.C == Mask(w) {
			return b
		}
		if b.IsConst() && b.C == Mask(w) {
			return a
		}
		if a == b {
			return a
		}
	case OpMul:
		if a.IsConst() && a.C == 0 || b.IsConst() && b.C == 0 {
			return c.BVC(0, w)
		}
		if a.IsConst() && a.C == 1 {
			return b
		}
		if b.IsConst() && b.C == 1 {
			return a
		}
	}
	if (op == OpAdd || op == OpMul || op == OpBAnd || op == OpBOr || op == OpBXor) && a.ID > b.ID {
		a, b = b, a
	}
	return c.mk(&Term{Op: op, Sort: a.Sort, Args: []*Term{a, b}})
}

func (c *Ctx) BVCmp(op Op, a, b *Term) *Term {
	w := a.Sort.W
	if a.Sort != b.Sort {
		panic(fmt.Sprintf("smt: sort mismatch in %s: %v vs %v", opNames[op], a.Sort, b.Sort))
	}
	if a.IsConst() && b.IsConst() {
		switch op {
		case OpULt:
			return c.BoolC(a.C < b.C)
		case OpULe:
			return c.BoolC(a.C <= b.C)
		case OpSLt:
			return c.BoolC(Sext(a.C, w) < Sext(b.C, w))
		case OpSLe:
			return c.BoolC(Sext(a.C, w) <= Sext(b.C, w))
		}
	}
	if a == b {
		return c.BoolC(op == OpULe || op == OpSLe)
	}
	return c.mk(&Term{Op: op, Sort: Bool, Args: []*Term{a, b}})
}

func (c *Ctx) BVNot(a *Term) *Term {
	if a.IsConst() {
		return c.BVC(^a.C, a.Sort.W)
	}
	return c.mk(&Term{Op: OpBNot, Sort: a.Sort, Args: []*Term{a}})
}

func (c *Ctx) BVNeg(a *Term) *Term {
	if a.IsConst() {
		return c.BVC(-a.C, a.Sort.W)
	}
	return c.mk(&Term{Op: OpNeg, Sort: a.Sort, Args: []*Term{a}})
}

func (c *Ctx) Extract(a *Term, hi, lo int) *Term {
	if lo == 0 && hi == a.Sort.W-1 {
		return a
	}
	w := hi - lo + 1
	if a.IsConst() {
		return c.BVC(a.C>>uint(lo), w)
	}
	if (a.Op == OpZExt || a.Op == OpSExt) && lo == 0 {
		iw := a.Args[0].Sort.W
		if w == iw {
			return a.Args[0]
		}
		if w < iw {
			return c.Extract(a.Args[0], hi, 0)
		}
	}
	return c.mk(&Term{Op: OpExtract, Sort: BV(w), Args: []*Term{a}, I1: hi, I2: lo})
}

func (c *Ctx) ZExt(a *Term, to int) *Term {
	if to == a.Sort.W {
		return a
	}
	if a.IsConst() {
		return c.BVC(a.C, to)
	}
	return c.mk(&Term{Op: OpZExt, Sort: BV(to), Args: []*Term{a}, I1: to - a.Sort.W})
}

func (c *Ctx) SExt(a *Term, to int) *Term {
	if to == a.Sort.W {
		return a
	}
	if a.IsConst() {
		return c.BVC(uint64(Sext(a.C, a.Sort.W)), to)
	}
	return c.mk(&Term{Op: OpSExt, Sort: BV(to), Args: []*Term{a}, I1: to - a.Sort.W})
}

func (c *Ctx) Concat(hi, lo *Term) *Term {
	w := hi.Sort.W + lo.Sort.W
	if hi.IsConst() && lo.IsConst() && w <= 64 {
		return c.BVC(hi.C<<uint(lo.Sort.W)|lo.C, w)
	}
	return c.mk(&Term{Op: OpConcat, Sort: BV(w), Args: []*Term{hi, lo}})
}

// ---- floating point ----

func (c *Ctx) FBin(op Op, a, b *Term) *Term {
	if a.IsConst() && b.IsConst() {
		x, y := a.Float(), b.Float()
		switch op {
		case OpFAdd:
			return c.FPC(x + y)
		case OpFSub:
			return c.FPC(x - y)
		case OpFMul:
			return c.FPC(x * y)
		case OpFDiv:
			return c.FPC(x / y)
		}
	}
	return c.mk(&Term{Op: op, Sort: FP64, Args: []*Term{a, b}})
}

func (c *Ctx) FCmp(op Op, a, b *Term) *Term {
	if a.IsConst() && b.IsConst() {
		x, y := a.Float(), b.Float()
		switch op {
		case OpFEq:
			return c.BoolC(x == y)
		case OpFLt:
			return c.BoolC(x < y)
		case OpFLe:
			return c.BoolC(x <= y)
		}
	}
	return c.mk(&Term{Op: op, Sort: Bool, Args: []*Term{a, b}})
}

func (c *Ctx) FNeg(a *Term) *Term {
	if a.IsConst() {
		return c.FPC(-a.Float())
	}
	return c.mk(&Term{Op: OpFNeg, Sort: FP64, Args: []*Term{a}})
}

func (c *Ctx) FIsNaN(a *Term) *Term {
	if a.IsConst() {
		return c.BoolC(math.IsNaN(a.Float()))
	}
	return c.mk(&Term{Op: OpFIsNaN, Sort: Bool, Args: []*Term{a}})
}

func (c *Ctx) IntToF(a *Term, signed bool) *Term {
	if a.IsConst() {
		if signed {
			return c.FPC(float64(Sext(a.C, a.Sort.W)))
		}
		return c.FPC(float64(a.C))
	}
	op := OpUToF
	if signed {
		op = OpSToF
	}
	return c.mk(&Term{Op: op, Sort: FP64, Args: []*Term{a}})
}

func (c *Ctx) FToInt(a *Term, w int, signed bool) *Term {
	op := OpFToU
	if signed {
		op = OpFToS
	}
	return c.mk(&Term{Op: op, Sort: BV(w), Args: []*Term{a}, I1: w})
}

func (c *Ctx) BitsToF(a *Term) *Term {
	if a.IsConst() {
		return c.mk(&Term{Op: OpConst, Sort: FP64, C: a.C})
	}
	return c.mk(&Term{Op: OpBToF, Sort: FP64, Args: []*Term{a}})
}

// VarsOf returns the ids of the free variables of t (memoised). An uninterpreted function counts as a
// pseudo-variable shared by all its applications, so constraints mentioning the same function always
// fall into the same independence class.
func (c *Ctx) VarsOf(t *Term) []int {
	if c.varsMemo == nil {
		c.varsMemo = map[int][]int{}
		c.fnIDs = map[string]int{}
	}
	if v, ok := c.varsMemo[t.ID]; ok {
		return v
	}
	var out []int
	switch t.Op {
	case OpConst:
	case OpVar:
		out = []int{t.ID}
	default:
		seen := map[int]bool{}
		if t.Op == OpApply {
			id, ok := c.fnIDs[t.Name]
			if !ok {
				id = -(len(c.fnIDs) + 1)
				c.fnIDs[t.Name] = id
			}
			seen[id] = true
			out = append(out, id)
		}
		for _, a := range t.Args {
			for _, v := range c.VarsOf(a) {
				if !seen[v] {
					seen[v] = true
					out = append(out, v)
				}
			}
		}
	}
	c.varsMemo[t.ID] = out
	return out
}

// Hash is a 128-bit structural hash of t (same structure and variable names =>
// same hash, across contexts). Used to key the cross-path query cache.
func (c *Ctx) Hash(t *Term) [2]uint64 {
	if c.hashes == nil {
		c.hashes = map[int][2]uint64{}
	}
	if h, ok := c.hashes[t.ID]; ok {
		return h
	}
	mix := func(h, v uint64) uint64 {
		h ^= v + 0x9e3779b97f4a7c15 + (h << 6) + (h >> 2)
		h *= 0xff51afd7ed558ccd
		h ^= h >> 33
		return h
	}
	h0 := mix(0x1234567, uint64(t.Op)<<32|uint64(t.Sort.K)<<16|uint64(t.Sort.W))
	h1 := mix(0x89abcdef, uint64(t.Op)*31+uint64(t.Sort.W))
	h0 = mix(h0, t.C)
	h1 = mix(h1, t.C^0x5555)
	h0 = mix(h0, uint64(t.I1)<<20|uint64(t.I2))
	h1 = mix(h1, uint64(t.I2)<<20|uint64(t.I1))
	for k := 0; k < len(t.Name); k++ {
		h0 = mix(h0, uint64(t.Name[k]))
		h1 = mix(h1, uint64(t.Name[k])*131)
	}
	for _, a := range t.Args {
		ah := c.Hash(a)
		h0 = mix(h0, ah[0])
		h1 = mix(h1, ah[1])
	}
	r := [2]uint64{h0, h1}
	c.hashes[t.ID] = r
	return r
}

// Apply builds an application of an uninterpreted function.
func (c *Ctx) Apply(name string, res Sort, args ...*Term) *Term {
	if _, ok := c.funcs[name]; !ok {
		var sb strings.Builder
		fmt.Fprintf(&sb, "(declare-fun %s (", name)
		for i, a := range args {
			if i > 0 {
				sb.WriteByte(' ')
			}
			sb.WriteString(a.Sort.String())
		}
		fmt.Fprintf(&sb, ") %s)", res.String())
		c.funcs[name] = sb.String()
		c.funcsO = append(c.funcsO, name)
	}
	return c.mk(&Term{Op: OpApply, Sort: res, Args: args, Name: name})
}

func (c *Ctx) FuncDecls() []string {
	var out []string
	for _, n := range c.funcsO {
		out = append(out, c.funcs[n])
	}
	return out
}

// ---- rendering ----

func constLit(t *Term) string {
	switch t.Sort.K {
	case KBool:
		if t.C == 1 {
			return "true"
		}
		return "false"
	case KBV:
		if t.Sort.W%4 == 0 {
			return fmt.Sprintf("#x%0*x", t.Sort.W/4, t.C)
		}
		return fmt.Sprintf("#b%0*b", t.Sort.W, t.C)
	default:
		return fmt.Sprintf("((_ to_fp 11 53) #x%016x)", t.C)
	}
}

// Ref is how a term is referred to from another term's definition.
func Ref(t *Term) string {
	switch t.Op {
	case OpConst:
		return constLit(t)
	case OpVar:
		return t.Name
	}
	return fmt.Sprintf("t%d", t.ID)
}

// Body renders one node in terms of Refs of its children.
func Body(t *Term) string {
	switch t.Op {
	case OpConst, OpVar:
		return Ref(t)
	case OpExtract:
		return fmt.Sprintf("((_ extract %d %d) %s)", t.I1, t.I2, Ref(t.Args[0]))
	case OpZExt:
		return fmt.Sprintf("((_ zero_extend %d) %s)", t.I1, Ref(t.Args[0]))
	case OpSExt:
		return fmt.Sprintf("((_ sign_extend %d) %s)", t.I1, Ref(t.Args[0]))
	case OpFToS:
		return fmt.Sprintf("((_ fp.to_sbv %d) RTZ %s)", t.I1, Ref(t.Args[0]))
	case OpFToU:
		return fmt.Sprintf("((_ fp.to_ubv %d) RTZ %s)", t.I1, Ref(t.Args[0]))
	case OpApply:
		if len(t.Args) == 0 {
			return t.Name
		}
		var sb strings.Builder
		sb.WriteString("(" + t.Name)
		for _, a := range t.Args {
			sb.WriteByte(' ')
			sb.WriteString(Ref(a))
		}
		sb.WriteByte(')')
		return sb.String()
	}
	var sb strings.Builder
	sb.WriteByte('(')
	sb.WriteString(opNames[t.Op])
	for _, a := range t.Args {
		sb.WriteByte(' ')
		sb.WriteString(Ref(a))
	}
	sb.WriteByte(')')
	return sb.String()
}

// Eval evaluates t under an assignment of variables (by name); used to
// cross-check solver models and to evaluate Observe terms. ok=false when
// the term contains something not evaluable (uninterpreted function).
func (c *Ctx) Eval(t *Term, env map[string]uint64, memo map[int]uint64) (uint64, bool) {
	if v, ok := memo[t.ID]; ok {
		return v, true
	}
	var r uint64
	switch t.Op {
	case OpConst:
		r = t.C
	case OpVar:
		v, ok := env[t.Name]
		if !ok {
			v = 0
		}
		r = v
	case OpApply:
		return 0, false
	default:
		av := make([]uint64, len(t.Args))
		for i, a := range t.Args {
			v, ok := c.Eval(a, env, memo)
			if !ok {
				return 0, false
			}
			av[i] = v
		}
		b2u := func(b bool) uint64 {
			if b {
				return 1
			}
			return 0
		}
		w := 0
		if len(t.Args) > 0 {
			w = t.Args[0].Sort.W
		}
		f := func(i int) float64 { return math.Float64frombits(av[i]) }
		switch t.Op {
		case OpNot:
			r = 1 - av[0]
		case OpAnd:
			r = av[0] & av[1]
		case OpOr:
			r = av[0] | av[1]
		case OpIte:
			if av[0] == 1 {
				r = av[1]
			} else {
				r = av[2]
			}
		case OpEq:
			if t.Args[0].Sort.K == KFP && (math.IsNaN(f(0)) || math.IsNaN(f(1))) {
				r = b2u(math.IsNaN(f(0)) && math.IsNaN(f(1)))
			} else {
				r = b2u(av[0] == av[1])
			}
		case OpAdd, OpSub, OpMul, OpUDiv, OpSDiv, OpURem, OpSRem, OpBAnd, OpBOr, OpBXor, OpShl, OpLShr, OpAShr:
			r, _ = FoldBV(t.Op, av[0], av[1], w)
		case OpBNot:
			r = ^av[0] & Mask(w)
		case OpNeg:
			r = -av[0] & Mask(w)
		case OpULt:
			r = b2u(av[0] < av[1])
		case OpULe:
			r = b2u(av[0] <= av[1])
		case OpSLt:
			r = b2u(Sext(av[0], w) < Sext(av[1], w))
		case OpSLe:
			r = b2u(Sext(av[0], w) <= Sext(av[1], w))
		case OpConcat:
			if t.Sort.W > 64 {
				return 0, false
			}
			r = av[0]<<uint(t.Args[1].Sort.W) | av[1]
		case OpExtract:
			r = (av[0] >> uint(t.I2)) & Mask(t.I1-t.I2+1)
		case OpZExt:
			r = av[0]
		case OpSExt:
			r = uint64(Sext(av[0], w)) & Mask(t.Sort.W)
		case OpFAdd:
			r = math.Float64bits(f(0) + f(1))
		case OpFSub:
			r = math.Float64bits(f(0) - f(1))
		case OpFMul:
			r = math.Float64bits(f(0) * f(1))
		case OpFDiv:
			r = math.Float64bits(f(0) / f(1))
		case OpFNeg:
			r = math.Float64bits(-f(0))
		case OpFEq:
			r = b2u(f(0) == f(1))
		case OpFLt:
			r = b2u(f(0) < f(1))
		case OpFLe:
			r = b2u(f(0) <= f(1))
		case OpFIsNaN:
			r = b2u(math.IsNaN(f(0)))
		case OpSToF:
			r = math.Float64bits(float64(Sext(av[0], w)))
		case OpUToF:
			r = math.Float64bits(float64(av[0]))
		case OpFToS:
			r = uint64(int64(f(0))) & Mask(t.I1)
		case OpFToU:
			r = uint64(f(0)) & Mask(t.I1)
		case OpBToF:
			r = av[0]
		default:
			return 0, false
		}
	}
	memo[t.ID] = r
	return r, true
}

var _ = bits.Len
