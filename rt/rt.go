// Package zzverifrt is the harness runtime. Under the symbolic engine every
// function here is intercepted by name; this file is the *native* (replay)
// implementation: values are popped, in call order, from the JSON file named by
// VERIF_REPLAY, so the same harness compiled by the Go compiler against the real
// package re-runs a solver-produced counterexample or witness.
package zzverifrt

import (
	"encoding/json"
	"fmt"
	"math"
	"os"
	"runtime"
	"time"
)

type replayVal struct {
	Name  string   `json:"name"`
	Kind  string   `json:"kind"`
	Bits  uint64   `json:"bits"`
	Bytes []uint64 `json:"bytes"`
}

type replayFile struct {
	Params map[string]int `json:"params"`
	Nondet []replayVal    `json:"nondet"`
}

var (
	loaded bool
	rf     replayFile
	pos    int
)

func load() {
	if loaded {
		return
	}
	loaded = true
	p := os.Getenv("VERIF_REPLAY")
	if p == "" {
		fmt.Println("REPLAY-ERROR VERIF_REPLAY not set")
		os.Exit(4)
	}
	b, err := os.ReadFile(p)
	if err != nil {
		fmt.Println("REPLAY-ERROR", err)
		os.Exit(4)
	}
	if err := json.Unmarshal(b, &rf); err != nil {
		fmt.Println("REPLAY-ERROR", err)
		os.Exit(4)
	}
}

// Reset restarts consumption of the replay vector (used by multi-run drivers).
func Reset() { loaded = false; pos = 0 }

func next(name, kind string) replayVal {
	load()
	if pos >= len(rf.Nondet) {
		fmt.Printf("REPLAY-DIVERGED want %s %q but vector exhausted at %d\n", kind, name, pos)
		os.Exit(4)
	}
	for rf.Nondet[pos].Kind == "uf" && pos+1 < len(rf.Nondet) {
		pos++ // points of an uninterpreted function (UFLookup): not part of the input sequence
	}
	v := rf.Nondet[pos]
	pos++
	if v.Kind != kind || (v.Name != name && kind != "choose") {
		fmt.Printf("REPLAY-DIVERGED at %d: want %s %q, vector has %s %q\n", pos-1, kind, name, v.Kind, v.Name)
		os.Exit(4)
	}
	return v
}

func Bool(name string) bool       { return next(name, "bool").Bits != 0 }
func Int(name string) int         { return int(next(name, "int").Bits) }
func Int8(name string) int8       { return int8(next(name, "int8").Bits) }
func Int16(name string) int16     { return int16(next(name, "int16").Bits) }
func Int32(name string) int32     { return int32(next(name, "int32").Bits) }
func Int64(name string) int64     { return int64(next(name, "int64").Bits) }
func Uint(name string) uint       { return uint(next(name, "uint").Bits) }
func Uint8(name string) uint8     { return uint8(next(name, "uint8").Bits) }
func Uint16(name string) uint16   { return uint16(next(name, "uint16").Bits) }
func Uint32(name string) uint32   { return uint32(next(name, "uint32").Bits) }
func Uint64(name string) uint64   { return next(name, "uint64").Bits }
func Float64(name string) float64 { return math.Float64frombits(next(name, "float64").Bits) }

// String returns an arbitrary string of at most maxLen bytes.
func String(name string, maxLen int) string {
	v := next(name, "string")
	b := make([]byte, len(v.Bytes))
	for i, x := range v.Bytes {
		b[i] = byte(x)
	}
	return string(b)
}

// Bytes returns an arbitrary byte slice of at most maxLen bytes.
func Bytes(name string, maxLen int) []byte {
	v := next(name, "bytes")
	b := make([]byte, len(v.Bytes))
	for i, x := range v.Bytes {
		b[i] = byte(x)
	}
	return b
}

// FixedBytes returns an arbitrary byte slice of exactly n bytes.
func FixedBytes(name string, n int) []byte {
	v := next(name, "bytes")
	b := make([]byte, len(v.Bytes))
	for i, x := range v.Bytes {
		b[i] = byte(x)
	}
	return b
}

// OpaqueBytes returns a byte slice of arbitrary length whose contents are irrelevant
// (under the engine only its length can be used; natively it is allocated for real,
// so harnesses add rt.Prefer(len <= small) to keep counterexamples replayable).
func OpaqueBytes(name string) []byte {
	v := next(name, "opaquelen")
	if v.Bits > 1<<28 {
		fmt.Printf("REPLAY-ERROR opaque length %d too large to allocate natively\n", v.Bits)
		os.Exit(4)
	}
	return make([]byte, int(v.Bits))
}

// Prefer is a soft constraint used only when a model is extracted.
func Prefer(c bool) {}

// Assume constrains the inputs; natively a false assumption means the replay
// vector is outside the harness domain (a machinery error, not a violation).
func Assume(c bool) {
	if !c {
		fmt.Println("REPLAY-OUTSIDE-DOMAIN")
		os.Exit(5)
	}
}

// Assert is the property. Natively a failure is reported and the process exits.
func Assert(c bool, id string) {
	if !c {
		fmt.Printf("REPLAY-ASSERT-FAILED %s\n", id)
		os.Exit(3)
	}
}

// Known tags the current path as inside a known finding when c holds.
func Known(id string, c bool) {}

// Observe records a value for translator validation.
func Observe(tag string, v any) {
	fmt.Printf("OBSERVE %s %s\n", tag, render(v))
}

func normNaN(b uint64) uint64 {
	if b&0x7ff0000000000000 == 0x7ff0000000000000 && b&0x000fffffffffffff != 0 {
		return 0x7ff8000000000001
	}
	return b
}

func render(v any) string {
	switch x := v.(type) {
	case nil:
		return "nil"
	case bool:
		if x {
			return "b:1"
		}
		return "b:0"
	case int:
		return fmt.Sprintf("i:%x", uint64(x))
	case int8:
		return fmt.Sprintf("i:%x", uint8(x))
	case int16:
		return fmt.Sprintf("i:%x", uint16(x))
	case int32:
		return fmt.Sprintf("i:%x", uint32(x))
	case int64:
		return fmt.Sprintf("i:%x", uint64(x))
	case uint:
		return fmt.Sprintf("i:%x", uint64(x))
	case uint8:
		return fmt.Sprintf("i:%x", x)
	case uint16:
		return fmt.Sprintf("i:%x", x)
	case uint32:
		return fmt.Sprintf("i:%x", x)
	case uint64:
		return fmt.Sprintf("i:%x", x)
	case uintptr:
		return fmt.Sprintf("i:%x", uint64(x))
	case float64:
		return fmt.Sprintf("f:%016x", normNaN(math.Float64bits(x)))
	case string:
		return fmt.Sprintf("s:%x", x)
	case []byte:
		s := "["
		for i, b := range x {
			if i > 0 {
				s += ","
			}
			s += fmt.Sprintf("i:%x", b)
		}
		return s + "]"
	}
	return fmt.Sprintf("?%T", v)
}

func And(a, b bool) bool     { return a && b }
func Or(a, b bool) bool      { return a || b }
func Not(a bool) bool        { return !a }
func Implies(a, b bool) bool { return !a || b }

func IteInt(c bool, a, b int) int {
	if c {
		return a
	}
	return b
}

// Param returns a bound fixed by checks.json for the tier being run.
func Param(name string) int {
	load()
	v := next(name, "param")
	return int(v.Bits)
}

// Choose is a decision variable in [0,n).
func Choose(n int) int { return int(next("choose", "choose").Bits) }

// Reach marks a program point for the vacuity check.
func Reach(id string) {}

// Symbolic reports whether the harness runs under the symbolic engine.
func Symbolic() bool { return false }

// Spawned / RunSpawned exist only under the engine's sequential mode.
func Spawned() int     { return 0 }
func RunSpawned(i int) {}

// Quiesce returns when no other goroutine can make progress (engine: exact, without
// advancing virtual time; natively: a short real sleep).
func Quiesce() { time.Sleep(50 * time.Millisecond) }

// AdvanceTime fires the earliest armed timer under the engine's virtual clock;
// natively real time passes on its own, so this only waits a little.
func AdvanceTime() bool { time.Sleep(20 * time.Millisecond); return true }

// NowNanos is the virtual clock (engine) / monotonic time since process start (native).
func NowNanos() int64 { return int64(time.Since(startTime)) }

var startTime = time.Now()

// NumTasks is the number of live goroutines known to the engine (native: runtime's count).
func NumTasks() int { return runtime.NumGoroutine() }

// WatchBegin/WatchHits/WatchEnd: frame-condition tracking (engine only).
func WatchBegin(tag string, root any) {}
func WatchGlobals(pkgPrefix string)    {}
func WatchReport()                    {}
func WatchEndTag(tag string)          {}
func WatchHits() int                  { return 0 }
func WatchHitsTag(tag string) int     { return 0 }
func WatchChangedTag(tag string) int  { return 0 }

// RaceBegin/RaceCount: happens-before data-race detection over the explored schedules (engine only; natively
// the Go race detector is the counterpart: go test -race).
func RaceBegin()     {}
func RaceCount() int { return 0 }

// UFLookup: the points of the uninterpreted function `name` that the solver's counterexample fixed (replay only).
// The compiled library model consults it before falling back to its own fixed function, so that a violation
// that depends on the value of E(x) reproduces natively. Under the engine it is nil (the model is intercepted).
func UFLookup(name string) func(string) (string, bool) {
	return func(in string) (string, bool) {
		load()
		for _, v := range rf.Nondet {
			if v.Kind != "uf" || v.Name != name || len(v.Bytes) != 2*len(in) {
				continue
			}
			match := true
			for k := 0; k < len(in); k++ {
				if byte(v.Bytes[k]) != in[k] {
					match = false
					break
				}
			}
			if match {
				out := make([]byte, len(in))
				for k := range out {
					out[k] = byte(v.Bytes[len(in)+k])
				}
				return string(out), true
			}
		}
		return "", false
	}
}

// NativeCheck runs f in the compiled harness (replay); under the engine it is true without running f.
func NativeCheck(f func() bool) bool { return f() }
func WatchEnd()                       {}
