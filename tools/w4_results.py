#!/usr/bin/env python3
"""Fills caught_by of the wave-4 seeded changes from the evaluation logs (/tmp/w4/eval_<prop>_<n>.log: the checks of
the change's properties run by tools/eval_w4.sh against a scratch copy with the patch applied, at the time the change
was evaluated) and from the targeted re-runs made after an obligation was added (/verif/.work/targeted.log), and
rewrites seeded/RESULTS.json. Old-wave entries keep the caught_by recorded by tools/reverify_seeded.sh."""
import json, glob, re, os
tgt = {}
if os.path.exists('/verif/.work/targeted.log'):
    for l in open('/verif/.work/targeted.log'):
        p = l.split()
        if len(p) >= 4 and p[3].startswith('violations=') and int(p[3].split('=')[1]) > 0:
            tgt.setdefault(p[0], set()).add(p[2])
for f in sorted(glob.glob('/verif/seeded/*/meta.json')):
    m = json.load(open(f))
    mid = m['id']
    if 'w4' in mid:
        prop, _, n = mid.split('-')
        log = f'/tmp/w4/eval_{prop}_{n}.log'
        c = set(m.get('caught_by') or [])
        if os.path.exists(log):
            c |= set(re.findall(r'^  obligation=(\S+)', open(log).read(), re.M))
        c |= tgt.get(mid, set())
        m['caught_by'] = sorted(c)
        m['caught_tier'] = 'quick'
        m['checked_with'] = 'tools/eval_w4.sh (scratch copy of /repo with patch.diff applied; check.sh <property> quick with VERIF_REPO=<copy>) at evaluation time; obligations added afterwards re-run with tools/targeted_reverify.sh; never applied to /repo\'s history'
    else:
        c = set(m.get('caught_by') or []) | tgt.get(mid, set())
        m['caught_by'] = sorted(c)
        if c and 'miss_reason' in m:
            m['miss_reason_before_session3'] = m.pop('miss_reason')
    json.dump(m, open(f, 'w'), indent=1)
r = {}
for f in sorted(glob.glob('/verif/seeded/*/meta.json')):
    m = json.load(open(f))
    r[m['id']] = {'property': m['property'], 'caught_by': m.get('caught_by', []), 'tier': m.get('caught_tier'), 'needs': m['needs_to_manifest']}
json.dump(r, open('/verif/seeded/RESULTS.json', 'w'), indent=1)
print('caught:', sum(1 for v in r.values() if v['caught_by']), 'of', len(r))
print('not caught:', [k for k, v in r.items() if not v['caught_by']])
