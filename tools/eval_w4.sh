#!/bin/bash
# usage: eval_w4.sh <prop> <n> <check props...>
# Confirms mutant /tmp/w4/wt_<prop>/_mutants/<n> in its author's worktree (demo passes without / fails with the patch,
# builds, module suite passes with it), then runs the quick checks of <check props> against a scratch COPY of /repo
# with the patch applied (VERIF_REPO). Output: /tmp/w4/eval_<prop>_<n>.log
P=$1; N=$2; shift 2
WT=/tmp/w4/wt_$P; D=$WT/_mutants/$N
export GOFLAGS=-mod=mod GOPROXY=off GOSUMDB=off GOTOOLCHAIN=local
LOG=/tmp/w4/eval_${P}_$N.log; : > $LOG
demo=$(ls $D/*_test.go | head -1)
pkgline=$(head -40 $demo | grep -m1 '^package ' | awk '{print $2}')
# find demo dir: notes say; fall back to searching for the package by patch path
demodir=$(grep -oE '(pkg|collector)/[A-Za-z0-9_/]+' $D/notes.md | while read x; do [ -d $WT/$x ] && grep -qs "^package ${pkgline%_test}\b" $WT/$x/*.go 2>/dev/null && echo $x; done | head -1)
[ -z "$demodir" ] && { echo "cannot locate demo dir" >> $LOG; exit 2; }
case $demodir in collector/processor/concurrentbatchprocessor*) suite=collector/processor/concurrentbatchprocessor;; collector/processor/obfuscationprocessor*) suite=collector/processor/obfuscationprocessor;; *) suite=pkg;; esac
tests=$(grep -ohE '^func (Test[A-Za-z0-9_]+)' $D/*_test.go | awk '{print $2}' | paste -sd'|')
echo "demo dir=$demodir suite=$suite tests=$tests" >> $LOG
exec 9>/tmp/w4/lock_$P; flock 9
cd $WT && git checkout -q -- . && git clean -fdq -e _mutants
cp $D/*_test.go $WT/$demodir/
(cd $WT/$demodir && timeout 900 go test $DEMO_FLAGS -vet=off -count=1 -timeout 300s -run "^($tests)\$" . > /tmp/w4/cm_${P}_${N}_without.log 2>&1); W=$?
cd $WT && git apply $D/patch.diff || { echo "PATCH-DOES-NOT-APPLY" >> $LOG; exit 2; }
(cd $WT/$demodir && timeout 900 go test $DEMO_FLAGS -vet=off -count=1 -timeout 300s -run "^($tests)\$" . > /tmp/w4/cm_${P}_${N}_with.log 2>&1); X=$?
for f in $D/*_test.go; do rm -f $WT/$demodir/$(basename $f); done
(cd $WT/$suite && go build ./... > /tmp/w4/cm_${P}_${N}_build.log 2>&1); B=$?
(cd $WT/$suite && go test -vet=off -count=1 -timeout 25m ./... > /tmp/w4/cm_${P}_${N}_suite.log 2>&1); S=$?
cd $WT && git checkout -q -- . && git clean -fdq -e _mutants
echo "demo_without=$W demo_with=$X build=$B suite=$S" >> $LOG
flock -u 9
if [ $W -eq 0 ] && [ $X -ne 0 ] && [ $B -eq 0 ] && [ $S -eq 0 ]; then echo CONFIRMED >> $LOG; else echo NOT-CONFIRMED >> $LOG; fi
R=/tmp/w4/rv_${P}_$N; rm -rf $R; mkdir -p $R; rsync -a --exclude .git /repo/ $R/
(cd $R && git apply $D/patch.diff) || { echo "patch does not apply to /repo copy" >> $LOG; rm -rf $R; exit 2; }
for prop in "$@"; do
  VERIF_REPO=$R VERIF_WORKERS=${VERIF_WORKERS:-8} /verif/check.sh $prop quick > /tmp/w4/chk_${P}_${N}_$prop.log 2>&1; rc=$?
  echo "== check $prop exit=$rc" >> $LOG
  grep -E "^VIOLATION|^  obligation|^INCONCLUSIVE|^KNOWN|^OK" /tmp/w4/chk_${P}_${N}_$prop.log | cut -c1-300 | head -12 >> $LOG
done
rm -rf $R
cat $LOG
