#!/usr/bin/env python3
# usage: store_w4.py <id>...   e.g. C05-w4-1  -- copies a CONFIRMED wave-4 change from its author's worktree
# (/tmp/w4/wt_<prop>/_mutants/<n>) into /verif/seeded/<id>/ with a meta.json (eval log must say CONFIRMED).
import json, os, shutil, sys, glob, re
needs = json.load(open('/verif/.work/w4_needs.json'))
for mid in sys.argv[1:]:
    prop, _, n = mid.split('-')
    src = f'/tmp/w4/wt_{prop}/_mutants/{n}'
    log = open(f'/tmp/w4/eval_{prop}_{n}.log').read()
    if 'CONFIRMED' not in log or 'NOT-CONFIRMED' in log:
        print(mid, 'not confirmed, skipped'); continue
    dst = f'/verif/seeded/{mid}'
    os.makedirs(dst, exist_ok=True)
    shutil.copy(src + '/patch.diff', dst)
    demos = []
    for f in glob.glob(src + '/*_test.go'):
        shutil.copy(f, dst); demos.append(os.path.basename(f))
    if os.path.exists(src + '/notes.md'):
        shutil.copy(src + '/notes.md', dst)
    m = re.search(r'demo dir=(\S+) suite=(\S+) tests=(\S+)', log)
    p, need, props = needs[mid]
    meta = {
        'id': mid, 'property': p, 'breaks': p, 'needs_to_manifest': need,
        'module': '.' if m.group(2) == 'pkg' else m.group(2),
        'demo_files': demos, 'demo_placement': m.group(1).rstrip('/') + '/',
        'demo_cmd': f"cd {m.group(1)} && go test {'-race ' if mid=='C11-w4-3' else ''}-vet=off -count=1 -run '^({m.group(3)})$' .",
        'confirmed_by_me': 'tools/eval_w4.sh in the author\'s scratch worktree: demo passes without the patch, fails with it; the tree builds and the existing suite of the module passes with the patch',
        'checked_with': 'tools/reverify_seeded.sh (scratch copy of /repo with patch.diff applied; check.sh <property> quick with VERIF_REPO=<copy>; never applied to /repo\'s history)',
        'check_props': props, 'check_props_all': props, 'check_props_primary': [p],
        'caught_by': [], 'wave': 4,
        'origin': 'written by a sub-agent that saw only the property text and its own scratch worktree',
    }
    json.dump(meta, open(dst + '/meta.json', 'w'), indent=1)
    print(mid, 'stored')
