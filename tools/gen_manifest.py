#!/usr/bin/env python3
"""Regenerates /verif/MANIFEST.json from checks.json (claimed = properties that have obligations)
and tools/manifest_meta.json (per-property texts, not_applicable reasons)."""
import json, os
R='/verif'
props=[json.loads(l) for l in open(f'{R}/properties.jsonl')]
checks=json.load(open(f'{R}/checks.json'))
meta=json.load(open(f'{R}/tools/manifest_meta.json')) if os.path.exists(f'{R}/tools/manifest_meta.json') else {}
claimed=[p['id'] for p in props if p['id'] in checks and checks[p['id']].get('obligations')]
man={
 "version":1,
 "setup_cmd":"cd /verif/engine && GOFLAGS=-mod=mod GOPROXY=off GOSUMDB=off GOTOOLCHAIN=local CGO_ENABLED=0 go build -o /verif/bin/gosymex ./cmd/gosymex",
 "hooks":{"guard":"verif","enable":"none needed: harnesses, the harness runtime and library models are injected with go/packages and `go test -overlay` overlays; no file under /repo is written","baseline_off_cmd":"export GOTOOLCHAIN=local GOFLAGS=-mod=mod; for m in . collector/processor/concurrentbatchprocessor collector/processor/obfuscationprocessor; do (cd /repo/$m && go test -json -vet=off -count=1 -timeout 25m ./...); done","source_commits":[],"add_only":True},
 "engines":[{"name":"gosymex","path":"/verif/engine","serves_properties":claimed,"kind_free_text":"own Go-SSA symbolic executor (go/ssa -> SMT-LIB2 bit-vectors / IEEE doubles; z3 over a pipe, cvc5 for the floating-point obligations and, with --solve-bv-as-int, for the 64-bit accounting obligations; the other solvers are diffed against the primary in the thorough tier), stateless DFS over decision vectors, counterexamples replayed against the compiled code"}],
 "checks":[],
 "notes":meta.get("_notes","see DESIGN.md; exit 2 + INCONCLUSIVE line = machinery problem (never a VIOLATION line)"),
 "not_applicable":[]
}
def outside_of(pid):
    seen=[]
    for o in checks[pid]['obligations']:
        for x in o.get('outside',[]):
            if x not in seen: seen.append(x)
    t='; '.join(seen)
    return t if len(t)<1800 else t[:1800]+' …'
for p in props:
    pid=p['id']
    m=meta.get(pid,{})
    if pid in claimed:
        obl=[o['id'] for o in checks[pid]['obligations']]
        man["checks"].append({
          "property_id":pid,
          "quick_cmd":f"/verif/check.sh {pid} quick",
          "thorough_cmd":f"/verif/check.sh {pid} thorough",
          "evidence_file":f"/verif/evidence/{pid}.json",
          "replay_cmd_template":"/verif/bin/gosymex replay {path}",
          "engine":"gosymex",
          "level_claimed":{"category":"model_checking","text":m.get("text","bounded symbolic execution of the real function bodies (go/ssa) with an SMT solver deciding each assertion for all inputs within the stated bounds; obligations: "+", ".join(obl)),"design_ref":"DESIGN.md §4 "+pid},
          "level_note":m.get("note","trusted: go/ssa, engine semantics (validated against the compiled code on sampled paths each run), the solvers, the library contracts listed in the evidence file. Outside the claim: "+outside_of(pid)+" (bounds per obligation: evidence file; DESIGN.md §0.3/§6)"),
          "technique":"SMT-based bounded symbolic execution of the Go SSA of the real code (own engine gosymex; z3 / cvc5 decide every branch and assertion for all values within the stated bounds), counterexamples replayed against the compiled code"
        })
    else:
        man["not_applicable"].append({"property_id":pid,"reason":m.get("na","check under construction in this session (engine stage not reached yet); not claimed until it runs clean on the unchanged tree")})
json.dump(man,open(f'{R}/MANIFEST.json','w'),indent=1)
print("claimed:",claimed)
