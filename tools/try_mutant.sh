#!/bin/bash
# usage: try_mutant.sh <patch.diff> <tier> <property>...   -- applies the patch to /repo, runs the checks, reverts.
P=$1; T=$2; shift 2
cd /repo && git status --short | grep -q . && { echo "/repo not clean"; exit 2; }
git -C /repo apply $P || { echo "patch does not apply to /repo"; exit 2; }
for prop in "$@"; do
  /verif/check.sh $prop $T > /tmp/tm_$prop.log 2>&1; rc=$?
  echo "== $prop exit=$rc"; grep -E "^VIOLATION|^  obligation|^INCONCLUSIVE|^KNOWN|^OK" /tmp/tm_$prop.log | cut -c1-260 | head -8
done
git -C /repo checkout -- .
