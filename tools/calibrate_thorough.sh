#!/bin/bash
# usage: calibrate_thorough.sh <cap seconds> [property...] -- runs every thorough obligation whose (harness, params)
# differ from the quick tier once (deduplicated across properties), each capped, and prints wall time + status.
CAP=${1:-600}; shift
cd /verif
python3 - "$@" > /tmp/calib_list.txt <<'PY'
import json,sys
d=json.load(open('/verif/checks.json'))
want=set(sys.argv[1:])
seen=set()
for p,v in d.items():
    if want and p not in want: continue
    for o in v['obligations']:
        q=o['params'].get('quick'); t=o['params'].get('thorough')
        if q==t and not o.get('tiers') and not (o.get('preempt') and o['preempt'].get('quick')!=o['preempt'].get('thorough')): continue
        key=(o['harness'],json.dumps(t,sort_keys=True),json.dumps(o.get('preempt')))
        if key in seen: continue
        seen.add(key)
        print(p,o['id'])
PY
while read p id; do
  s=$(date +%s)
  timeout $CAP /verif/bin/gosymex check -property $p -tier thorough -only $id -no-evidence > /tmp/calib_$id.log 2>&1; rc=$?
  e=$(date +%s)
  echo "$p $id rc=$rc wall=$((e-s))s $(grep -E '^\[' /tmp/calib_$id.log | tail -1 | cut -c1-160)"
done < /tmp/calib_list.txt
