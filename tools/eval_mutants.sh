#!/bin/bash
# usage: eval_mutants.sh <prop> <module rel dir> <check props...>  -- for every /tmp/wt_<prop>/_mutants/<n>
P=$1; MOD=$2; SUITE=$3; shift 3
for d in /tmp/wt_$P/_mutants/*/; do
  n=$(basename $d)
  [ -f $d/patch.diff ] || continue
  echo "######## $P-$n"
  /verif/tools/confirm_mutant.sh /tmp/wt_$P $d $MOD 'Test' $SUITE 2>&1 | tail -2
  /verif/tools/try_mutant.sh $d/patch.diff quick "$@" 2>&1
done
