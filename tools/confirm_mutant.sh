#!/bin/bash
# usage: confirm_mutant.sh <worktree> <mutant dir> <module rel dir> <demo run regex>
# Confirms in the scratch worktree: (a) module suite passes WITH the patch, (b) demo fails WITH, (c) demo passes WITHOUT.
set -u
WT=$1; MD=$2; MOD=$3; RUN=$4; SUITE=${5:-$3}
export GOFLAGS=-mod=mod GOPROXY=off GOSUMDB=off GOTOOLCHAIN=local
cd $WT && git checkout -q -- . && git clean -fdq -e _mutants
git -C $WT checkout -q --detach $(git -C /repo rev-parse HEAD) 2>/dev/null
cp $MD/*_test.go $WT/$MOD/ 2>/dev/null
cd $WT/$MOD && go test -vet=off -count=1 -timeout 120s -run "$RUN" . > /tmp/cm_without.log 2>&1; W=$?
cd $WT && git apply $MD/patch.diff || { echo "PATCH-DOES-NOT-APPLY"; exit 2; }
cd $WT/$MOD && go test -vet=off -count=1 -timeout 120s -run "$RUN" . > /tmp/cm_with.log 2>&1; X=$?
rm -f $WT/$MOD/*mutant*_test.go $WT/$MOD/c[0-9][0-9]_*_test.go $WT/$MOD/*demo*_test.go
cd $WT/$MOD && go build ./... > /tmp/cm_build.log 2>&1; B=$?
cd $WT/$SUITE && go test -vet=off -count=1 -timeout 20m ./... > /tmp/cm_suite.log 2>&1; S=$?
cd $WT && git checkout -q -- . && git clean -fdq -e _mutants
echo "demo_without_patch_exit=$W demo_with_patch_exit=$X build_with_patch=$B suite_with_patch_exit=$S"
if [ $W -eq 0 ] && [ $X -ne 0 ] && [ $B -eq 0 ] && [ $S -eq 0 ]; then echo CONFIRMED; else echo NOT-CONFIRMED; fi
