#!/bin/bash
# usage: targeted_reverify.sh <file with lines: mutant-id property obligation>  -- applies the seeded patch to a scratch
# copy of /repo and runs ONE obligation of ONE property against it (quick tier); prints what was reported.
while read id prop ob; do
  [ -z "$id" ] && continue
  R=/tmp/trv_$id; rm -rf $R; mkdir -p $R; rsync -a --exclude .git /repo/ $R/
  (cd $R && git apply /verif/seeded/$id/patch.diff) || { echo "$id PATCH-DOES-NOT-APPLY"; rm -rf $R; continue; }
  out=$(VERIF_REPO=$R /verif/bin/gosymex check -property $prop -tier quick -only $ob -no-evidence 2>&1)
  v=$(echo "$out" | grep -c "^VIOLATION")
  echo "$id $prop $ob violations=$v $(echo "$out" | grep -E '^  obligation=' | head -1 | sed -E 's/^  obligation=([^ ]+) kind=([^ ]+)( assert=([^ ]*))?.*/\2:\4/')"
  rm -rf $R
done < $1
