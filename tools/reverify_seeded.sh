#!/bin/bash
# usage: reverify_seeded.sh [tier] [id...]   -- for every /verif/seeded/<id>: apply patch.diff to /repo, run the
# checks of the properties listed in meta.json (check_props), record which obligations report a violation,
# revert /repo. Writes /verif/seeded/RESULTS.json and updates caught_by in each meta.json.
T=${1:-quick}; shift
cd /verif
IDS="$@"; [ -z "$IDS" ] && IDS=$(ls seeded | grep -E '^C[0-9]+-')
git -C /repo status --short | grep -q . && { echo "/repo not clean"; exit 2; }
for id in $IDS; do
  d=seeded/$id
  props=$(python3 -c "import json;print(' '.join(json.load(open('$d/meta.json'))['check_props']))")
  git -C /repo apply $d/patch.diff || { echo "$id PATCH-DOES-NOT-APPLY"; continue; }
  caught=""
  for p in $props; do
    ./check.sh $p $T > /tmp/rv_$id.$p.log 2>&1; rc=$?
    obs=$(grep -E "^  obligation=" /tmp/rv_$id.$p.log | sed -E 's/^  obligation=([^ ]+) kind=([^ ]+)( assert=([^ ]+))?.*/\1:\2:\4/' | sort -u | tr '\n' ' ')
    echo "$id $p exit=$rc $obs"
    [ $rc -eq 1 ] && caught="$caught $(grep -E '^  obligation=' /tmp/rv_$id.$p.log | sed -E 's/^  obligation=([^ ]+) .*/\1/' | sort -u | tr '\n' ' ')"
    [ $rc -eq 2 ] && echo "   INCONCLUSIVE: $(grep -E '^INCONCLUSIVE' /tmp/rv_$id.$p.log | head -2)"
  done
  git -C /repo checkout -- .
  python3 - "$d/meta.json" "$T" $caught <<'PY'
import json,sys
f=sys.argv[1]; tier=sys.argv[2]; c=sorted(set(sys.argv[3:]))
m=json.load(open(f)); m['caught_by']=c; m['caught_tier']=tier; json.dump(m,open(f,'w'),indent=1)
PY
done
git -C /repo status --short | grep -q . && echo "WARNING: /repo not clean"
python3 - <<'PY'
import json,glob
r={}
for f in sorted(glob.glob('/verif/seeded/*/meta.json')):
    m=json.load(open(f)); r[m['id']]={'property':m['property'],'caught_by':m.get('caught_by',[]),'tier':m.get('caught_tier'),'needs':m['needs_to_manifest']}
json.dump(r,open('/verif/seeded/RESULTS.json','w'),indent=1)
print("caught:",sum(1 for v in r.values() if v['caught_by']),"of",len(r))
PY
