#!/bin/bash
# usage: reverify_seeded.sh [tier] [id...]   -- for every /verif/seeded/<id>: copy /repo's working tree to a scratch
# directory, apply patch.diff there, run the checks of the properties listed in meta.json (check_props) against the
# copy (VERIF_REPO; such runs never write evidence), record which obligations report a violation, remove the copy.
# Up to $PAR mutants are evaluated at a time. Writes /verif/seeded/RESULTS.json and updates caught_by in meta.json.
T=${1:-quick}; shift
PAR=${PAR:-4}
cd /verif
IDS="$@"; [ -z "$IDS" ] && IDS=$(ls seeded | grep -E '^C[0-9]+-')
one() {
  id=$1; d=/verif/seeded/$id; R=/tmp/rv_repo_$id
  rm -rf $R; mkdir -p $R; rsync -a --exclude .git /repo/ $R/
  props=$(python3 -c "import json,os;print(' '.join(json.load(open('$d/meta.json'))[os.environ.get('RV_KEY','check_props')]))")
  (cd $R && git apply $d/patch.diff) || { echo "$id PATCH-DOES-NOT-APPLY"; rm -rf $R; return; }
  caught=""
  for p in $props; do
    VERIF_REPO=$R VERIF_WORKERS=$((16/PAR)) /verif/check.sh $p $T > /tmp/rv_$id.$p.log 2>&1; rc=$?
    obs=$(grep -E "^  obligation=" /tmp/rv_$id.$p.log | sed -E 's/^  obligation=([^ ]+) kind=([^ ]+)( assert=([^ ]+))?.*/\1:\2:\4/' | sort -u | tr '\n' ' ')
    echo "$id $p exit=$rc $obs"
    [ $rc -eq 1 ] && caught="$caught $(grep -E '^  obligation=' /tmp/rv_$id.$p.log | sed -E 's/^  obligation=([^ ]+) .*/\1/' | sort -u | tr '\n' ' ')"
    [ $rc -eq 2 ] && echo "   $id $p INCONCLUSIVE: $(grep -E '^INCONCLUSIVE' /tmp/rv_$id.$p.log | head -2)"
  done
  rm -rf $R
  python3 - "$d/meta.json" "$T" $caught <<'PY'
import json,sys
f=sys.argv[1]; tier=sys.argv[2]; c=sorted(set(sys.argv[3:]))
m=json.load(open(f)); m['caught_by']=c; m['caught_tier']=tier; json.dump(m,open(f,'w'),indent=1)
PY
}
n=0
for id in $IDS; do
  one $id &
  n=$((n+1)); if [ $((n % PAR)) -eq 0 ]; then wait; fi
done
wait
python3 - <<'PY'
import json,glob
r={}
for f in sorted(glob.glob('/verif/seeded/*/meta.json')):
    m=json.load(open(f)); r[m['id']]={'property':m['property'],'caught_by':m.get('caught_by',[]),'tier':m.get('caught_tier'),'needs':m['needs_to_manifest']}
json.dump(r,open('/verif/seeded/RESULTS.json','w'),indent=1)
print("caught:",sum(1 for v in r.values() if v['caught_by']),"of",len(r))
PY
