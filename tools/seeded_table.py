#!/usr/bin/env python3
"""Prints the DESIGN.md §0.5 table from /verif/seeded/*/meta.json."""
import json,glob
rows=[]
for f in sorted(glob.glob('/verif/seeded/*/meta.json')):
    m=json.load(open(f))
    c=m.get('caught_by') or []
    cb=', '.join('`%s`'%x for x in c) if c else '**not caught** — '+m.get('miss_reason','see text')
    rows.append(f"| {m['id']} | {m['needs_to_manifest']} | {cb} |")
print("| id | what it needs to manifest | caught by (quick tier) |\n|---|---|---|")
print('\n'.join(rows))
