package obfuscationprocessor

import (
	"context"

	"github.com/cyrildever/feistel"
	"github.com/cyrildever/feistel/common/utils/hash"
	"go.opentelemetry.io/collector/pdata/pcommon"
	"go.opentelemetry.io/collector/pdata/plog"
	"go.opentelemetry.io/collector/pdata/pmetric"
	"go.opentelemetry.io/collector/pdata/ptrace"
	"go.uber.org/zap"

	rt "github.com/open-telemetry/otel-arrow/collector/processor/obfuscationprocessor/zzverifrt"
)

func verifObf(all bool) *obfuscation {
	feistel.VerifEHook = rt.UFLookup("E")
	return &obfuscation{logger: zap.NewNop(), encrypt: feistel.NewFPECipher(hash.SHA_256, "k", 10),
		encryptAll: all, encryptAttributes: map[string]struct{}{"a": {}}}
}

// verifAnyVal: a value of symbolic type; depth-1 containers hold one symbolic element.
func verifAnyVal(tag string, depth int) pcommon.Value {
	t := rt.Int(tag + ".type")
	rt.Assume(t >= 0)
	rt.Assume(t <= 7)
	switch t {
	case 0:
		return pcommon.NewValueStr(rt.String(tag+".str", 1))
	case 1:
		return pcommon.NewValueInt(rt.Int64(tag + ".int"))
	case 2:
		return pcommon.NewValueDouble(rt.Float64(tag + ".double"))
	case 3:
		return pcommon.NewValueBool(rt.Bool(tag + ".bool"))
	case 4:
		v := pcommon.NewValueBytes()
		v.Bytes().FromRaw(rt.Bytes(tag+".bytes", 1))
		return v
	case 5:
		rt.Assume(depth > 0)
		v := pcommon.NewValueSlice()
		verifAnyVal(tag+".elem", depth-1).CopyTo(v.Slice().AppendEmpty())
		if depth > 1 {
			v.Slice().AppendEmpty().SetInt(rt.Int64(tag + ".tail")) // a second element: shifts are visible
		}
		return v
	case 6:
		rt.Assume(depth > 0)
		v := pcommon.NewValueMap()
		verifAnyVal(tag+".entry", depth-1).CopyTo(v.Map().PutEmpty(rt.String(tag+".entrykey", 1)))
		return v
	}
	return pcommon.NewValueEmpty()
}

// verifE is the substitute the statement speaks of: the configured cipher applied to the original string (the
// cipher is a contract: a deterministic, length-preserving injection). It deliberately does NOT go through the
// processor's own encryptString/encryptStringToBytes, so that anything those add on top of the cipher (a
// normalisation, a truncation, a fallback) shows up as a difference from the reference.
func (o *obfuscation) verifE(s string) string {
	r, err := o.encrypt.Encrypt(s)
	if err != nil {
		return s
	}
	return r.String(true)
}

// verifExpectValue is the reference model of what a *targeted* value becomes: every string/bytes it
// contains is replaced by E(original); everything else is bit-identical; containers keep their shape.
func verifExpectValue(o *obfuscation, v pcommon.Value, dst pcommon.Value, inSlice bool) {
	switch v.Type() {
	case pcommon.ValueTypeStr:
		dst.SetStr(o.verifE(v.Str()))
	case pcommon.ValueTypeBytes:
		dst.SetEmptyBytes().FromRaw([]byte(o.verifE(string(v.Bytes().AsRaw()))))
	case pcommon.ValueTypeSlice:
		s := dst.SetEmptySlice()
		for i := 0; i < v.Slice().Len(); i++ {
			verifExpectValue(o, v.Slice().At(i), s.AppendEmpty(), true)
		}
	case pcommon.ValueTypeMap:
		verifExpectAttrs(o, v.Map(), dst.SetEmptyMap())
	default:
		v.CopyTo(dst)
	}
}

// verifExpectAttrs: reference model of the attribute pass (same positions, same count).
func verifExpectAttrs(o *obfuscation, in pcommon.Map, out pcommon.Map) {
	in.Range(func(k string, v pcommon.Value) bool {
		_, listed := o.encryptAttributes[k]
		if !o.encryptAll && !listed {
			v.CopyTo(out.PutEmpty(k)) // non-targeted attributes stay as they are
			return true
		}
		verifExpectValue(o, v, out.PutEmpty(o.verifE(k)), false)
		return true
	})
}

type verifKV struct {
	k string
	v pcommon.Value
}

func verifEntries(m pcommon.Map) []verifKV {
	var out []verifKV
	m.Range(func(k string, v pcommon.Value) bool {
		out = append(out, verifKV{k, v})
		return true
	})
	return out
}

func verifBytesEq(x, y []byte) bool {
	if len(x) != len(y) {
		return false
	}
	eq := true
	for i := range x {
		eq = rt.And(eq, x[i] == y[i])
	}
	return eq
}

// verifSameValue: identical type, shape and payload (doubles compared by bits: "unchanged").
func verifSameValue(a, b pcommon.Value) bool {
	if a.Type() != b.Type() {
		return false
	}
	switch a.Type() {
	case pcommon.ValueTypeStr:
		return a.Str() == b.Str()
	case pcommon.ValueTypeInt:
		return a.Int() == b.Int()
	case pcommon.ValueTypeDouble:
		return rt.Or(a.Double() == b.Double(), rt.And(a.Double() != a.Double(), b.Double() != b.Double()))
	case pcommon.ValueTypeBool:
		return a.Bool() == b.Bool()
	case pcommon.ValueTypeBytes:
		return verifBytesEq(a.Bytes().AsRaw(), b.Bytes().AsRaw())
	case pcommon.ValueTypeSlice:
		if a.Slice().Len() != b.Slice().Len() {
			return false
		}
		eq := true
		for i := 0; i < a.Slice().Len(); i++ {
			eq = rt.And(eq, verifSameValue(a.Slice().At(i), b.Slice().At(i)))
		}
		return eq
	case pcommon.ValueTypeMap:
		return verifSameMap(a.Map(), b.Map())
	}
	return true
}

// verifSameMap: position-wise equal (count, order, keys, values).
func verifSameMap(a, b pcommon.Map) bool {
	ea, eb := verifEntries(a), verifEntries(b)
	if len(ea) != len(eb) {
		return false
	}
	eq := true
	for i := range ea {
		eq = rt.And(eq, rt.And(ea[i].k == eb[i].k, verifSameValue(ea[i].v, eb[i].v)))
	}
	return eq
}

// VerifHarness_C17_attrs: NATTR attributes with symbolic keys (so listed and unlisted keys both occur)
// and values of every type incl. one-element nested list/map, both modes. The processor's attribute pass
// must agree with the reference model: nothing added/dropped/reordered, non-targeted values and all
// non-strings unchanged, targeted strings replaced by E(original) (same length by contract).
func VerifHarness_C17_attrs() {
	all := rt.Bool("encryptAll")
	o := verifObf(all)
	n := rt.Param("NATTR")
	in := pcommon.NewMap()
	for i := 0; i < n; i++ {
		k := rt.String("key", 1)
		if _, dup := in.Get(k); dup {
			rt.Assume(false) // pdata maps built through the API have distinct keys
		}
		verifAnyVal("v", rt.Param("DEPTH")).CopyTo(in.PutEmpty(k))
	}
	// assumption (outside the claim): in list mode an obfuscated key does not happen to equal an
	// unlisted plaintext key of the same map (inherent to obfuscating keys in place)
	if !all {
		for _, a := range verifEntries(in) {
			if _, listed := o.encryptAttributes[a.k]; !listed {
				continue
			}
			for _, b := range verifEntries(in) {
				if _, listed := o.encryptAttributes[b.k]; !listed {
					rt.Assume(o.verifE(a.k) != b.k)
				}
			}
		}
	}
	want := pcommon.NewMap()
	verifExpectAttrs(o, in, want)
	got := pcommon.NewMap()
	in.CopyTo(got)
	o.processAttrs(context.Background(), got)
	rt.Observe("len", got.Len())
	rt.Assert(got.Len() == in.Len(), "C17.attrs.count_preserved")
	rt.Assert(verifSameMap(got, want), "C17.attrs.matches_reference")
}

// VerifHarness_C17_traces: one resource / scope / span / event / link, each with one symbolic attribute,
// symbolic names: container counts are preserved, non-string span fields are untouched, every attribute
// map agrees with the reference model, names are replaced by E(name).
func VerifHarness_C17_traces() {
	all := rt.Bool("encryptAll")
	o := verifObf(all)
	td := ptrace.NewTraces()
	rs := td.ResourceSpans().AppendEmpty()
	one := func(tag string) string { return string(rt.FixedBytes(tag, 1)) } // exactly one symbolic byte
	put := func(m pcommon.Map, tag string) pcommon.Map {
		key := "b" // unlisted
		if rt.Bool(tag + ".listed") {
			key = "a"
		}
		m.PutStr(key, one(tag+".v"))
		m.PutInt("n", rt.Int64(tag+".n"))
		c := pcommon.NewMap()
		m.CopyTo(c)
		return c
	}
	inRes := put(rs.Resource().Attributes(), "res")
	ss := rs.ScopeSpans().AppendEmpty()
	scopeName, scopeVer := one("scope.name"), one("scope.version")
	ss.Scope().SetName(scopeName)
	ss.Scope().SetVersion(scopeVer)
	inScope := put(ss.Scope().Attributes(), "scope")
	sp := ss.Spans().AppendEmpty()
	spanName := one("span.name")
	sp.SetName(spanName)
	start, kind := rt.Uint64("span.start"), rt.Int32("span.kind")
	sp.SetStartTimestamp(pcommon.Timestamp(start))
	sp.SetKind(ptrace.SpanKind(kind))
	inSpan := put(sp.Attributes(), "span")
	hasEvent := rt.Bool("hasEvent")
	evName := one("event.name")
	var inEv pcommon.Map
	if hasEvent {
		ev := sp.Events().AppendEmpty()
		ev.SetName(evName)
		inEv = put(ev.Attributes(), "event")
	}
	lk := sp.Links().AppendEmpty()
	inLk := put(lk.Attributes(), "link")

	out, err := o.processTraces(context.Background(), td)
	rt.Assert(err == nil, "C17.traces.no_error")
	rt.Assert(out.ResourceSpans().Len() == 1, "C17.traces.resource_count")
	ors := out.ResourceSpans().At(0)
	rt.Assert(ors.ScopeSpans().Len() == 1, "C17.traces.scope_count")
	oss := ors.ScopeSpans().At(0)
	rt.Assert(oss.Spans().Len() == 1, "C17.traces.span_count")
	osp := oss.Spans().At(0)
	wantEvents := 0
	if hasEvent {
		wantEvents = 1
	}
	rt.Assert(osp.Events().Len() == wantEvents, "C17.traces.event_count")
	if osp.Events().Len() != wantEvents {
		return
	}
	rt.Assert(osp.Links().Len() == 1, "C17.traces.link_count")
	rt.Assert(rt.And(uint64(osp.StartTimestamp()) == start, int32(osp.Kind()) == kind), "C17.traces.non_strings_untouched")
	check := func(in, got pcommon.Map, id string) {
		want := pcommon.NewMap()
		verifExpectAttrs(o, in, want)
		rt.Assert(verifSameMap(got, want), id)
	}
	check(inRes, ors.Resource().Attributes(), "C17.traces.resource_attrs")
	check(inScope, oss.Scope().Attributes(), "C17.traces.scope_attrs")
	check(inSpan, osp.Attributes(), "C17.traces.span_attrs")
	if hasEvent {
		check(inEv, osp.Events().At(0).Attributes(), "C17.traces.event_attrs")
		rt.Assert(osp.Events().At(0).Name() == o.verifE(evName), "C17.traces.event_name")
	}
	check(inLk, osp.Links().At(0).Attributes(), "C17.traces.link_attrs")
	rt.Assert(osp.Name() == o.verifE(spanName), "C17.traces.span_name")
	rt.Assert(rt.And(oss.Scope().Name() == o.verifE(scopeName), oss.Scope().Version() == o.verifE(scopeVer)), "C17.traces.scope_name_version")
	rt.Assert(rt.And(len(osp.Name()) == len(spanName), len(oss.Scope().Name()) == len(scopeName)), "C17.traces.same_length")
}

// verifPut: two attributes — one string under a listed ("a") or unlisted ("b") key (symbolic choice, symbolic
// one-byte value) and one integer; returns a private copy of the input map.
func verifPut(m pcommon.Map, tag string) pcommon.Map {
	key := "b"
	if rt.Bool(tag + ".listed") {
		key = "a"
	}
	m.PutStr(key, string(rt.FixedBytes(tag+".v", 1)))
	m.PutInt("n", rt.Int64(tag+".n"))
	c := pcommon.NewMap()
	m.CopyTo(c)
	return c
}

func verifCheckMap(o *obfuscation, in, got pcommon.Map, id string) {
	want := pcommon.NewMap()
	verifExpectAttrs(o, in, want)
	rt.Assert(verifSameMap(got, want), id)
}

// VerifHarness_C17_logs: processLogs over RECORDS log records in one scope of one resource: container counts
// preserved, non-attribute record fields untouched (body, severity text, times), resource / scope / record
// attribute maps agree with the reference model.
func VerifHarness_C17_logs() {
	o := verifObf(rt.Bool("encryptAll"))
	ld := plog.NewLogs()
	rl := ld.ResourceLogs().AppendEmpty()
	inRes := verifPut(rl.Resource().Attributes(), "res")
	sl := rl.ScopeLogs().AppendEmpty()
	inScope := verifPut(sl.Scope().Attributes(), "scope")
	n := rt.Param("RECORDS")
	ins := make([]pcommon.Map, n)
	bodies := make([]string, n)
	times := make([]uint64, n)
	for i := 0; i < n; i++ {
		lr := sl.LogRecords().AppendEmpty()
		bodies[i] = string(rt.FixedBytes("body", 1))
		lr.Body().SetStr(bodies[i])
		times[i] = rt.Uint64("time")
		lr.SetTimestamp(pcommon.Timestamp(times[i]))
		ins[i] = verifPut(lr.Attributes(), "record")
	}
	out, err := o.processLogs(context.Background(), ld)
	rt.Assert(err == nil, "C17.logs.no_error")
	rt.Assert(out.ResourceLogs().Len() == 1, "C17.logs.resource_count")
	orl := out.ResourceLogs().At(0)
	rt.Assert(orl.ScopeLogs().Len() == 1, "C17.logs.scope_count")
	osl := orl.ScopeLogs().At(0)
	rt.Assert(osl.LogRecords().Len() == n, "C17.logs.record_count")
	if osl.LogRecords().Len() != n {
		return
	}
	verifCheckMap(o, inRes, orl.Resource().Attributes(), "C17.logs.resource_attrs")
	verifCheckMap(o, inScope, osl.Scope().Attributes(), "C17.logs.scope_attrs")
	for i := 0; i < n; i++ {
		olr := osl.LogRecords().At(i)
		rt.Assert(rt.And(uint64(olr.Timestamp()) == times[i], rt.And(olr.Body().Type() == pcommon.ValueTypeStr, olr.Body().Str() == bodies[i])), "C17.logs.record_fields_untouched")
		verifCheckMap(o, ins[i], olr.Attributes(), "C17.logs.record_attrs")
	}
}

// VerifHarness_C17_metrics: processMetrics over one metric of every type (symbolic choice) with POINTS data
// points: container counts preserved, point values / times untouched, resource / scope / point attribute maps
// agree with the reference model.
func VerifHarness_C17_metrics() {
	o := verifObf(rt.Bool("encryptAll"))
	md := pmetric.NewMetrics()
	rm := md.ResourceMetrics().AppendEmpty()
	inRes := verifPut(rm.Resource().Attributes(), "res")
	sm := rm.ScopeMetrics().AppendEmpty()
	inScope := verifPut(sm.Scope().Attributes(), "scope")
	m := sm.Metrics().AppendEmpty()
	m.SetName("m")
	kind := rt.Int("kind")
	rt.Assume(kind >= 0)
	rt.Assume(kind <= 4)
	n := rt.Param("POINTS")
	ins := make([]pcommon.Map, n)
	times := make([]uint64, n)
	for i := 0; i < n; i++ {
		times[i] = rt.Uint64("time")
		ts := pcommon.Timestamp(times[i])
		switch kind {
		case 0:
			if i == 0 {
				m.SetEmptyGauge()
			}
			dp := m.Gauge().DataPoints().AppendEmpty()
			dp.SetTimestamp(ts)
			ins[i] = verifPut(dp.Attributes(), "point")
		case 1:
			if i == 0 {
				m.SetEmptySum()
			}
			dp := m.Sum().DataPoints().AppendEmpty()
			dp.SetTimestamp(ts)
			ins[i] = verifPut(dp.Attributes(), "point")
		case 2:
			if i == 0 {
				m.SetEmptyHistogram()
			}
			dp := m.Histogram().DataPoints().AppendEmpty()
			dp.SetTimestamp(ts)
			ins[i] = verifPut(dp.Attributes(), "point")
		case 3:
			if i == 0 {
				m.SetEmptyExponentialHistogram()
			}
			dp := m.ExponentialHistogram().DataPoints().AppendEmpty()
			dp.SetTimestamp(ts)
			ins[i] = verifPut(dp.Attributes(), "point")
		default:
			if i == 0 {
				m.SetEmptySummary()
			}
			dp := m.Summary().DataPoints().AppendEmpty()
			dp.SetTimestamp(ts)
			ins[i] = verifPut(dp.Attributes(), "point")
		}
	}
	out, err := o.processMetrics(context.Background(), md)
	rt.Assert(err == nil, "C17.metrics.no_error")
	rt.Assert(out.ResourceMetrics().Len() == 1, "C17.metrics.resource_count")
	orm := out.ResourceMetrics().At(0)
	rt.Assert(orm.ScopeMetrics().Len() == 1, "C17.metrics.scope_count")
	osm := orm.ScopeMetrics().At(0)
	rt.Assert(osm.Metrics().Len() == 1, "C17.metrics.metric_count")
	if osm.Metrics().Len() != 1 {
		return
	}
	om := osm.Metrics().At(0)
	verifCheckMap(o, inRes, orm.Resource().Attributes(), "C17.metrics.resource_attrs")
	verifCheckMap(o, inScope, osm.Scope().Attributes(), "C17.metrics.scope_attrs")
	rt.Assert(om.Name() == "m", "C17.metrics.name_untouched")
	point := func(i int) (pcommon.Map, pcommon.Timestamp, int) {
		switch kind {
		case 0:
			return om.Gauge().DataPoints().At(i).Attributes(), om.Gauge().DataPoints().At(i).Timestamp(), om.Gauge().DataPoints().Len()
		case 1:
			return om.Sum().DataPoints().At(i).Attributes(), om.Sum().DataPoints().At(i).Timestamp(), om.Sum().DataPoints().Len()
		case 2:
			return om.Histogram().DataPoints().At(i).Attributes(), om.Histogram().DataPoints().At(i).Timestamp(), om.Histogram().DataPoints().Len()
		case 3:
			return om.ExponentialHistogram().DataPoints().At(i).Attributes(), om.ExponentialHistogram().DataPoints().At(i).Timestamp(), om.ExponentialHistogram().DataPoints().Len()
		}
		return om.Summary().DataPoints().At(i).Attributes(), om.Summary().DataPoints().At(i).Timestamp(), om.Summary().DataPoints().Len()
	}
	for i := 0; i < n; i++ {
		got, ts, cnt := point(i)
		rt.Assert(cnt == n, "C17.metrics.point_count")
		rt.Assert(uint64(ts) == times[i], "C17.metrics.point_fields_untouched")
		verifCheckMap(o, ins[i], got, "C17.metrics.point_attrs")
	}
}
