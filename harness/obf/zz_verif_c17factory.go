package obfuscationprocessor

import (
	"context"

	"github.com/cyrildever/feistel"

	"go.opentelemetry.io/collector/component"
	"go.opentelemetry.io/collector/consumer"
	"go.opentelemetry.io/collector/pdata/pcommon"
	"go.opentelemetry.io/collector/pdata/plog"
	"go.opentelemetry.io/collector/pdata/pmetric"
	"go.opentelemetry.io/collector/pdata/ptrace"
	"go.opentelemetry.io/collector/processor"
	metricnoop "go.opentelemetry.io/otel/metric/noop"
	tracenoop "go.opentelemetry.io/otel/trace/noop"
	"go.uber.org/zap"

	rt "github.com/open-telemetry/otel-arrow/collector/processor/obfuscationprocessor/zzverifrt"
)

func verifSettings() processor.Settings {
	return processor.Settings{
		ID: component.NewID(component.MustNewType(typeStr)),
		TelemetrySettings: component.TelemetrySettings{
			Logger:         zap.NewNop(),
			MeterProvider:  metricnoop.NewMeterProvider(),
			TracerProvider: tracenoop.NewTracerProvider(),
		},
		BuildInfo: component.NewDefaultBuildInfo(),
	}
}

// VerifHarness_C17_factory: the processor as the collector builds it - factory default config, then the user's
// settings: encrypt_attributes empty or ["a"], encrypt_all left at its default or set explicitly (symbolic) -
// for a symbolic signal. One resource attribute "a" and one "bb", both strings with symbolic one-byte values.
// Which attributes are TARGETED must follow the documented rule (a non-empty list targets exactly the listed
// keys, whatever encrypt_all says; an empty list targets everything iff encrypt_all): a non-targeted attribute
// reaches the next consumer with its key and value untouched, nothing is added or dropped; a targeted string
// keeps its length.
func VerifHarness_C17_factory() {
	feistel.VerifEHook = rt.UFLookup("E")
	cfg := createDefaultConfig().(*Config)
	cfg.KeyLength = 1
	if rt.Bool("encryptAllSetExplicitly") {
		cfg.EncryptAll = rt.Bool("encryptAllValue")
	}
	listed := rt.Bool("listGiven")
	if listed {
		cfg.EncryptAttributes = []string{"a"}
	}
	wantAll := cfg.EncryptAll && !listed // the documented rule, evaluated on the user's settings
	va, vb := rt.String("va", 1), rt.String("vb", 1)
	fill := func(m pcommon.Map) {
		m.PutStr("a", va)
		m.PutStr("bb", vb)
	}
	var got pcommon.Map
	have := false
	ctx := context.Background()
	sig := rt.Int("signal")
	rt.Assume(sig >= 0)
	rt.Assume(sig <= 2)
	switch sig {
	case 0:
		sink, _ := consumer.NewTraces(func(_ context.Context, td ptrace.Traces) error {
			got, have = td.ResourceSpans().At(0).Resource().Attributes(), true
			return nil
		})
		p, err := createTracesProcessor(ctx, verifSettings(), cfg, sink)
		rt.Assert(err == nil, "C17.factory.created")
		td := ptrace.NewTraces()
		fill(td.ResourceSpans().AppendEmpty().Resource().Attributes())
		rt.Assert(p.ConsumeTraces(ctx, td) == nil, "C17.factory.consume_ok")
	case 1:
		sink, _ := consumer.NewLogs(func(_ context.Context, ld plog.Logs) error {
			got, have = ld.ResourceLogs().At(0).Resource().Attributes(), true
			return nil
		})
		p, err := createLogsProcessor(ctx, verifSettings(), cfg, sink)
		rt.Assert(err == nil, "C17.factory.created")
		ld := plog.NewLogs()
		fill(ld.ResourceLogs().AppendEmpty().Resource().Attributes())
		rt.Assert(p.ConsumeLogs(ctx, ld) == nil, "C17.factory.consume_ok")
	default:
		sink, _ := consumer.NewMetrics(func(_ context.Context, md pmetric.Metrics) error {
			got, have = md.ResourceMetrics().At(0).Resource().Attributes(), true
			return nil
		})
		p, err := createMetricsProcessor(ctx, verifSettings(), cfg, sink)
		rt.Assert(err == nil, "C17.factory.created")
		md := pmetric.NewMetrics()
		fill(md.ResourceMetrics().AppendEmpty().Resource().Attributes())
		rt.Assert(p.ConsumeMetrics(ctx, md) == nil, "C17.factory.consume_ok")
	}
	rt.Assert(have, "C17.factory.forwarded")
	if !have {
		return
	}
	rt.Assert(got.Len() == 2, "C17.factory.count_preserved")
	if !wantAll {
		// "bb" is not targeted (list mode, or nothing targeted at all)
		v, ok := got.Get("bb")
		rt.Assert(ok && v.Type() == pcommon.ValueTypeStr && v.Str() == vb, "C17.factory.untargeted_attribute_untouched")
		if !listed {
			v, ok := got.Get("a")
			rt.Assert(ok && v.Type() == pcommon.ValueTypeStr && v.Str() == va, "C17.factory.nothing_targeted_nothing_touched")
		}
	}
	got.Range(func(k string, v pcommon.Value) bool {
		// (the unlisted key has another length than the listed one, so that - the cipher being length-preserving -
		// an obfuscated key can never coincide with the other key of the map)
		want := len(va)
		if len(k) == 2 {
			want = len(vb)
		}
		rt.Assert((len(k) == 1 || len(k) == 2) && v.Type() == pcommon.ValueTypeStr && len(v.Str()) == want, "C17.factory.lengths_and_types_preserved")
		return true
	})
}
