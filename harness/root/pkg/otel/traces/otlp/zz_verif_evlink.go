package otlp

import (
	cfg "github.com/open-telemetry/otel-arrow/pkg/config"
	carrow "github.com/open-telemetry/otel-arrow/pkg/otel/common/arrow"
	tarrow "github.com/open-telemetry/otel-arrow/pkg/otel/traces/arrow"
	rt "github.com/open-telemetry/otel-arrow/zzverifrt"
)

// VerifHarness_C01_event_sym: span-event rows (parent id, name) in ANY order through the producer's
// event parent-id encoder (as configured by NewConfig) and the consumer's EventParentIdDecoder as
// SpanEventsStoreFrom creates it: every row decodes to its own parent id.
func VerifHarness_C01_event_sym() {
	enc := tarrow.NewConfig(cfg.DefaultConfig()).Event.Sorter
	enc.Reset()
	dec := NewEventParentIdDecoder(carrow.ParentIdDeltaGroupEncoding)
	rows := rt.Param("ROWS")
	for i := 0; i < rows; i++ {
		pid := rt.Uint16("pid")
		name := rt.String("name", 1)
		ev := &tarrow.Event{ParentID: pid, Name: name}
		got := dec.Decode(enc.Encode(pid, ev), name)
		rt.Observe("decoded", got)
		rt.Assert(got == pid, "event.parent_id")
	}
}

// VerifHarness_C01_link_sym: span-link rows (parent id, 16-byte trace id) likewise.
func VerifHarness_C01_link_sym() {
	enc := tarrow.NewConfig(cfg.DefaultConfig()).Link.Sorter
	enc.Reset()
	dec := NewLinkParentIdDecoder(carrow.ParentIdDeltaGroupEncoding)
	rows := rt.Param("ROWS")
	for i := 0; i < rows; i++ {
		pid := rt.Uint16("pid")
		l := &tarrow.Link{ParentID: pid}
		tid := rt.FixedBytes("tid", 16)
		copy(l.TraceID[:], tid)
		wire := make([]byte, 16) // what the consumer reads from the fixed-size-binary column
		copy(wire, tid)
		got := dec.Decode(enc.Encode(pid, l), wire)
		rt.Observe("decoded", got)
		rt.Assert(got == pid, "link.parent_id")
	}
}
