package arrow

import (
	"go.opentelemetry.io/collector/pdata/ptrace"

	rt "github.com/open-telemetry/otel-arrow/zzverifrt"
)

// VerifHarness_C08_evlink_width: one more event-/link-bearing span from an arbitrary accumulator state.
func VerifHarness_C08_evlink_width() {
	sp := ptrace.NewSpan()
	sp.Events().AppendEmpty().SetName("e")
	sp.Links().AppendEmpty()
	if rt.Bool("events") {
		acc := NewEventAccumulator(SortEventsByNameParentId())
		before := rt.Uint16("count")
		acc.groupCount = before
		err := acc.Append(rt.Uint16("spanID"), sp.Events())
		rt.Observe("err", err != nil)
		if err == nil {
			rt.Assert(acc.groupCount > before, "C08.evlink_width.no_wrap_events")
		} else {
			rt.Assert(acc.groupCount == before, "C08.evlink_width.refused_unchanged_events")
		}
	} else {
		acc := NewLinkAccumulator(SortLinksByTraceIdParentId())
		before := rt.Uint16("count")
		acc.groupCount = before
		err := acc.Append(rt.Uint16("spanID"), sp.Links())
		rt.Observe("err", err != nil)
		if err == nil {
			rt.Assert(acc.groupCount > before, "C08.evlink_width.no_wrap_links")
		} else {
			rt.Assert(acc.groupCount == before, "C08.evlink_width.refused_unchanged_links")
		}
	}
}
