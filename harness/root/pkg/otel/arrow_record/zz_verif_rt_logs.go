package arrow_record

import (
	"bytes"

	"go.opentelemetry.io/collector/pdata/pcommon"
	"go.opentelemetry.io/collector/pdata/plog"

	rt "github.com/open-telemetry/otel-arrow/zzverifrt"
)

type verifFlatLog struct {
	rl plog.ResourceLogs
	sl plog.ScopeLogs
	lr plog.LogRecord
}

func verifFlattenLogs(ld plog.Logs) []verifFlatLog {
	var out []verifFlatLog
	for i := 0; i < ld.ResourceLogs().Len(); i++ {
		rl := ld.ResourceLogs().At(i)
		for j := 0; j < rl.ScopeLogs().Len(); j++ {
			sl := rl.ScopeLogs().At(j)
			for k := 0; k < sl.LogRecords().Len(); k++ {
				out = append(out, verifFlatLog{rl, sl, sl.LogRecords().At(k)})
			}
		}
	}
	return out
}

func verifLogEquiv(o, d verifFlatLog, p string) {
	rt.Assert(rt.And(verifMapEquiv(o.rl.Resource().Attributes(), d.rl.Resource().Attributes()),
		rt.And(o.rl.Resource().DroppedAttributesCount() == d.rl.Resource().DroppedAttributesCount(), o.rl.SchemaUrl() == d.rl.SchemaUrl())), p+".resource")
	rt.Assert(rt.And(rt.And(o.sl.Scope().Name() == d.sl.Scope().Name(), o.sl.Scope().Version() == d.sl.Scope().Version()),
		rt.And(rt.And(verifMapEquiv(o.sl.Scope().Attributes(), d.sl.Scope().Attributes()), o.sl.Scope().DroppedAttributesCount() == d.sl.Scope().DroppedAttributesCount()),
			o.sl.SchemaUrl() == d.sl.SchemaUrl())), p+".scope")
	a, b := o.lr, d.lr
	ta, tb := a.TraceID(), b.TraceID()
	rt.Assert(verifBytesEq(ta[:], tb[:]), p+".trace_id")
	rt.Assert(rt.And(a.Timestamp() == b.Timestamp(), a.ObservedTimestamp() == b.ObservedTimestamp()), p+".times")
	rt.Assert(rt.And(a.SeverityNumber() == b.SeverityNumber(), a.SeverityText() == b.SeverityText()), p+".severity")
	rt.Assert(rt.And(a.DroppedAttributesCount() == b.DroppedAttributesCount(), a.Flags() == b.Flags()), p+".dropped_flags")
	rt.Assert(verifValEquiv(a.Body(), b.Body()), p+".body")
	rt.Assert(verifMapEquiv(a.Attributes(), b.Attributes()), p+".attributes")
}

func verifCheckLogs(orig, dec plog.Logs, p string) {
	of, df := verifFlattenLogs(orig), verifFlattenLogs(dec)
	rt.Assert(len(of) == len(df), p+".record_count")
	for _, o := range of {
		n := 0
		for _, d := range df {
			if o.lr.SpanID() == d.lr.SpanID() {
				n++
				verifLogEquiv(o, d, p)
			}
		}
		rt.Assert(n == 1, p+".each_record_once")
	}
}

func verifRoundTripLogs(p *Producer, c *Consumer, ld plog.Logs, tag string) {
	orig := plog.NewLogs()
	ld.CopyTo(orig)
	rt.WatchBegin("input", ld)
	h0 := rt.WatchChangedTag("input")
	bar, err := p.BatchArrowRecordsFromLogs(ld)
	// the engine decides the frame condition on its store instructions; the compiled harness (replay) compares
	// the serialisation of the input with that of the copy taken before the call
	same := rt.NativeCheck(func() bool {
		x, e1 := (&plog.ProtoMarshaler{}).MarshalLogs(ld)
		y, e2 := (&plog.ProtoMarshaler{}).MarshalLogs(orig)
		return e1 == nil && e2 == nil && bytes.Equal(x, y)
	})
	rt.Assert(rt.WatchChangedTag("input") == h0 && same, "C15.frame_input.logs_untouched")
	rt.WatchEndTag("input")
	rt.Assert(err == nil, tag+".encode_ok")
	if err != nil {
		return
	}
	verifDecodeStep(func() {
		out, err := c.LogsFrom(bar)
		rt.Assert(err == nil, tag+".decode_ok")
		if err != nil {
			return
		}
		if len(verifFlattenLogs(orig)) == 0 {
			return
		}
		rt.Assert(len(out) == 1, tag+".one_result")
		if len(out) == 1 {
			verifCheckLogs(orig, out[0], tag)
		}
	})
}

var verifLogSeq byte

func verifLogFields(lr plog.LogRecord, tag string, group int, bodyMask int) {
	verifLogSeq++
	lr.SetSpanID(pcommon.SpanID{verifLogSeq, 2, 2, 2, 2, 2, 2, 2}) // concrete and unique: the oracle's key
	ts := rt.Uint64(tag + ".time")
	rt.Assume(ts <= 1<<63-1)
	lr.SetTimestamp(pcommon.Timestamp(ts))
	if group&1 != 0 {
		ots := rt.Uint64(tag + ".observed")
		rt.Assume(ots <= 1<<63-1)
		lr.SetObservedTimestamp(pcommon.Timestamp(ots))
		lr.SetSeverityNumber(plog.SeverityNumber(rt.Int32(tag + ".sev")))
		lr.SetDroppedAttributesCount(rt.Uint32(tag + ".dac"))
		lr.SetFlags(plog.LogRecordFlags(rt.Uint32(tag + ".flags")))
		var tid pcommon.TraceID
		tid[0] = rt.Uint8(tag + ".tid0")
		lr.SetTraceID(tid)
	}
	if group&2 != 0 {
		lr.SetSeverityText(rt.String(tag+".sevtext", 1))
	}
	if bodyMask != 0 {
		verifVal(tag+".body", bodyMask).CopyTo(lr.Body())
	}
}

// VerifHarness_C02_rt_fields: one resource/scope, RECORDS records with symbolic scalar fields and a body of
// symbolic type (every AnyValue type incl. unset, "", empty bytes, one-element list/map), BATCHES batches.
func VerifHarness_C02_rt_fields() {
	p, c := verifProducer(), verifConsumer()
	for b := 0; b < rt.Param("BATCHES"); b++ {
		ld := plog.NewLogs()
		sl := ld.ResourceLogs().AppendEmpty().ScopeLogs().AppendEmpty()
		for r := 0; r < rt.Param("RECORDS"); r++ {
			lr := sl.LogRecords().AppendEmpty()
			verifLogFields(lr, "lr", rt.Param("GROUP"), rt.Param("BODYMASK"))
			verifAttrs(lr.Attributes(), "lr.attr", rt.Param("ATTRS"), 1|2|128)
		}
		verifRoundTripLogs(p, c, ld, "C02.rt")
	}
}

// VerifHarness_C02_rt_group: RES resources x SCOPES scopes x 1 record with symbolic, possibly equal or
// near-identical resource/scope identities — in particular the same scope under different resources
// (see VerifHarness_C01_rt_group for the identity construction).
func VerifHarness_C02_rt_group() {
	p, c := verifProducer(), verifConsumer()
	for b := 0; b < rt.Param("BATCHES"); b++ {
		ld := plog.NewLogs()
		for r := 0; r < rt.Param("RES"); r++ {
			rl := ld.ResourceLogs().AppendEmpty()
			verifIdentityAttr(rl.Resource().Attributes(), "res")
			rl.SetSchemaUrl(verifOne("res.url"))
			for s := 0; s < rt.Param("SCOPES"); s++ {
				sl := rl.ScopeLogs().AppendEmpty()
				sl.Scope().SetName(verifOne("scope.name"))
				sl.SetSchemaUrl(verifOne("scope.url"))
				if rt.Param("SCOPEATTR") == 1 {
					verifIdentityAttr(sl.Scope().Attributes(), "scope")
				}
				verifLogFields(sl.LogRecords().AppendEmpty(), "lr", 0, 0)
			}
		}
		verifRoundTripLogs(p, c, ld, "C02.rt")
	}
}
