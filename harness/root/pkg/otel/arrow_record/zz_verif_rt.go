package arrow_record

import (
	"bytes"

	"go.opentelemetry.io/collector/pdata/pcommon"
	"go.opentelemetry.io/collector/pdata/ptrace"
	"go.opentelemetry.io/otel/metric/noop"

	cfg "github.com/open-telemetry/otel-arrow/pkg/config"
	rt "github.com/open-telemetry/otel-arrow/zzverifrt"
)

// ---- symbolic input construction (public pdata API only) ----

func verifOne(tag string) string { return string(rt.FixedBytes(tag, 1)) } // exactly one symbolic byte

func verifCount(name string, max int) int {
	n := rt.Int(name)
	rt.Assume(n >= 0)
	rt.Assume(n <= max)
	return n
}

// verifVal: a value of symbolic type among the types enabled by mask
// (1=Str 2=Int 4=Double 8=Bool 16=Bytes 32=Slice(1 elem) 64=Map(1 entry) 128=Empty).
func verifVal(tag string, mask int) pcommon.Value {
	t := rt.Int(tag + ".type")
	rt.Assume(t >= 0)
	rt.Assume(t <= 7)
	switch t {
	case 0:
		rt.Assume(mask&1 != 0)
		return pcommon.NewValueStr(rt.String(tag+".str", 1))
	case 1:
		rt.Assume(mask&2 != 0)
		return pcommon.NewValueInt(rt.Int64(tag + ".int"))
	case 2:
		rt.Assume(mask&4 != 0)
		return pcommon.NewValueDouble(rt.Float64(tag + ".double"))
	case 3:
		rt.Assume(mask&8 != 0)
		return pcommon.NewValueBool(rt.Bool(tag + ".bool"))
	case 4:
		rt.Assume(mask&16 != 0)
		v := pcommon.NewValueBytes()
		v.Bytes().FromRaw(rt.Bytes(tag+".bytes", 1))
		return v
	case 5:
		rt.Assume(mask&32 != 0)
		v := pcommon.NewValueSlice()
		v.Slice().AppendEmpty().SetInt(rt.Int64(tag + ".elem"))
		return v
	case 6:
		rt.Assume(mask&64 != 0)
		v := pcommon.NewValueMap()
		v.Map().PutInt("e", rt.Int64(tag+".entry"))
		return v
	}
	rt.Assume(mask&128 != 0)
	return pcommon.NewValueEmpty()
}

// verifAttrs fills m with up to n attributes with symbolic one-byte-or-empty keys.
func verifAttrs(m pcommon.Map, tag string, n int, mask int) {
	k := verifCount(tag+".n", n)
	for i := 0; i < k; i++ {
		key := rt.String(tag+".key", 1)
		if _, dup := m.Get(key); dup {
			rt.Assume(false) // maps built through the API have distinct keys
		}
		verifVal(tag+".v", mask).CopyTo(m.PutEmpty(key))
	}
}

// ---- equivalence oracle (the property's documented normalisations) ----

func verifBytesEq(x, y []byte) bool {
	if len(x) != len(y) {
		return false
	}
	eq := true
	for i := range x {
		eq = rt.And(eq, x[i] == y[i])
	}
	return eq
}

func verifDoubleEq(a, b float64) bool {
	return rt.Or(a == b, rt.And(a != a, b != b)) // -0 == 0; NaN payloads not preserved
}

func verifValEquiv(a, b pcommon.Value) bool {
	if a.Type() != b.Type() {
		return false
	}
	switch a.Type() {
	case pcommon.ValueTypeStr:
		return a.Str() == b.Str()
	case pcommon.ValueTypeInt:
		return a.Int() == b.Int()
	case pcommon.ValueTypeDouble:
		return verifDoubleEq(a.Double(), b.Double())
	case pcommon.ValueTypeBool:
		return a.Bool() == b.Bool()
	case pcommon.ValueTypeBytes:
		return verifBytesEq(a.Bytes().AsRaw(), b.Bytes().AsRaw())
	case pcommon.ValueTypeSlice:
		if a.Slice().Len() != b.Slice().Len() {
			return false
		}
		eq := true
		for i := 0; i < a.Slice().Len(); i++ {
			eq = rt.And(eq, verifValEquiv(a.Slice().At(i), b.Slice().At(i)))
		}
		return eq
	case pcommon.ValueTypeMap:
		return verifMapEquiv(a.Map(), b.Map())
	}
	return true
}

// verifMapEquiv: same attributes once those with an empty key or an unset value are dropped.
func verifMapEquiv(a, b pcommon.Map) bool {
	sub := func(x, y pcommon.Map) bool {
		ok := true
		x.Range(func(k string, v pcommon.Value) bool {
			if k == "" || v.Type() == pcommon.ValueTypeEmpty {
				return true
			}
			w, found := y.Get(k)
			if !found {
				ok = false
				return false
			}
			ok = rt.And(ok, verifValEquiv(v, w))
			return true
		})
		return ok
	}
	return rt.And(sub(a, b), sub(b, a))
}

type verifFlatSpan struct {
	rs ptrace.ResourceSpans
	ss ptrace.ScopeSpans
	sp ptrace.Span
}

func verifFlatten(td ptrace.Traces) []verifFlatSpan {
	var out []verifFlatSpan
	for i := 0; i < td.ResourceSpans().Len(); i++ {
		rs := td.ResourceSpans().At(i)
		for j := 0; j < rs.ScopeSpans().Len(); j++ {
			ss := rs.ScopeSpans().At(j)
			for k := 0; k < ss.Spans().Len(); k++ {
				out = append(out, verifFlatSpan{rs, ss, ss.Spans().At(k)})
			}
		}
	}
	return out
}

// verifSpanEquiv asserts, clause by clause, that the decoded span d carries what the original o carried.
func verifSpanEquiv(o, d verifFlatSpan, p string) {
	rt.Assert(rt.And(verifMapEquiv(o.rs.Resource().Attributes(), d.rs.Resource().Attributes()),
		rt.And(o.rs.Resource().DroppedAttributesCount() == d.rs.Resource().DroppedAttributesCount(), o.rs.SchemaUrl() == d.rs.SchemaUrl())), p+".resource")
	rt.Assert(rt.And(rt.And(o.ss.Scope().Name() == d.ss.Scope().Name(), o.ss.Scope().Version() == d.ss.Scope().Version()),
		rt.And(rt.And(verifMapEquiv(o.ss.Scope().Attributes(), d.ss.Scope().Attributes()), o.ss.Scope().DroppedAttributesCount() == d.ss.Scope().DroppedAttributesCount()),
			o.ss.SchemaUrl() == d.ss.SchemaUrl())), p+".scope")
	a, b := o.sp, d.sp
	ta, tb := a.TraceID(), b.TraceID()
	pa, pb := a.ParentSpanID(), b.ParentSpanID()
	rt.Assert(rt.And(verifBytesEq(ta[:], tb[:]), verifBytesEq(pa[:], pb[:])), p+".ids")
	rt.Assert(rt.And(a.Name() == b.Name(), a.TraceState().AsRaw() == b.TraceState().AsRaw()), p+".name_state")
	rt.Assert(rt.And(a.StartTimestamp() == b.StartTimestamp(), a.EndTimestamp() == b.EndTimestamp()), p+".times")
	rt.Assert(rt.And(a.Kind() == b.Kind(), rt.And(a.Status().Code() == b.Status().Code(), a.Status().Message() == b.Status().Message())), p+".kind_status")
	rt.Assert(rt.And(a.DroppedAttributesCount() == b.DroppedAttributesCount(),
		rt.And(a.DroppedEventsCount() == b.DroppedEventsCount(), a.DroppedLinksCount() == b.DroppedLinksCount())), p+".dropped_counts")
	rt.Assert(verifMapEquiv(a.Attributes(), b.Attributes()), p+".attributes")
	rt.Assert(a.Events().Len() == b.Events().Len(), p+".event_count")
	if a.Events().Len() == b.Events().Len() {
		for i := 0; i < a.Events().Len(); i++ { // at most one event per span in these harnesses
			x, y := a.Events().At(i), b.Events().At(i)
			rt.Assert(rt.And(rt.And(x.Name() == y.Name(), x.Timestamp() == y.Timestamp()),
				rt.And(x.DroppedAttributesCount() == y.DroppedAttributesCount(), verifMapEquiv(x.Attributes(), y.Attributes()))), p+".event")
		}
	}
	rt.Assert(a.Links().Len() == b.Links().Len(), p+".link_count")
	if a.Links().Len() == b.Links().Len() {
		for i := 0; i < a.Links().Len(); i++ {
			x, y := a.Links().At(i), b.Links().At(i)
			xt, yt := x.TraceID(), y.TraceID()
			xs, ys := x.SpanID(), y.SpanID()
			rt.Assert(rt.And(rt.And(verifBytesEq(xt[:], yt[:]), verifBytesEq(xs[:], ys[:])),
				rt.And(rt.And(x.TraceState().AsRaw() == y.TraceState().AsRaw(), x.DroppedAttributesCount() == y.DroppedAttributesCount()),
					verifMapEquiv(x.Attributes(), y.Attributes()))), p+".link")
		}
	}
}

// verifCheckTraces: every original span (identified by its concrete, unique span id) is decoded exactly
// once and equivalent; nothing else is decoded.
func verifCheckTraces(orig, dec ptrace.Traces, p string) {
	of, df := verifFlatten(orig), verifFlatten(dec)
	rt.Assert(len(of) == len(df), p+".span_count")
	for _, o := range of {
		n := 0
		for _, d := range df {
			if o.sp.SpanID() == d.sp.SpanID() {
				n++
				verifSpanEquiv(o, d, p)
			}
		}
		rt.Assert(n == 1, p+".each_span_once")
	}
}

func verifProducer() *Producer {
	return NewProducerWithOptions(cfg.WithNoZstd())
}

// verifProducerOpt: producers with different public options (0 default, 1 no dictionaries + unsorted spans,
// 2 8-bit dictionary limit, 3 a dictionary limit that is not one of the index-type capacities, set through a
// caller-written Option, 4 attribute order key,value,parent_id).
func verifProducerOpt(k int) *Producer {
	switch k {
	case 4: // the one non-default attribute order whose encoding the consumer assumes
		return NewProducerWithOptions(cfg.WithNoZstd(), cfg.WithOrderAttrs32By(cfg.OrderAttrs32ByKeyValueParentId))
	case 3:
		return NewProducerWithOptions(cfg.WithNoZstd(), func(c *cfg.Config) { c.LimitIndexSize = 1000 })
	case 1:
		return NewProducerWithOptions(cfg.WithNoZstd(), cfg.WithNoDictionary(), cfg.WithOrderSpanBy(cfg.OrderSpanByNothing))
	case 2:
		return NewProducerWithOptions(cfg.WithNoZstd(), cfg.WithUint8LimitDictIndex())
	}
	return verifProducer()
}

func verifConsumer() *Consumer {
	return NewConsumer(WithMeterProvider(noop.NewMeterProvider()))
}

// verifRoundTrip encodes td on p and decodes on c, asserting success and equivalence.
func verifRoundTrip(p *Producer, c *Consumer, td ptrace.Traces, tag string) {
	orig := ptrace.NewTraces()
	td.CopyTo(orig)
	rt.WatchBegin("input", td)
	h0 := rt.WatchChangedTag("input")
	bar, err := p.BatchArrowRecordsFromTraces(td)
	// the engine decides the frame condition on its store instructions; the compiled harness (replay) compares
	// the serialisation of the input with that of the copy taken before the call
	same := rt.NativeCheck(func() bool {
		x, e1 := (&ptrace.ProtoMarshaler{}).MarshalTraces(td)
		y, e2 := (&ptrace.ProtoMarshaler{}).MarshalTraces(orig)
		return e1 == nil && e2 == nil && bytes.Equal(x, y)
	})
	rt.Assert(rt.WatchChangedTag("input") == h0 && same, "C15.frame_input.traces_untouched")
	rt.WatchEndTag("input")
	rt.Assert(err == nil, tag+".encode_ok")
	if err != nil {
		return
	}
	verifDecodeStep(func() {
		out, err := c.TracesFrom(bar)
		rt.Assert(err == nil, tag+".decode_ok")
		if err != nil {
			return
		}
		if len(verifFlatten(orig)) == 0 {
			return // an empty batch decodes to nothing
		}
		rt.Assert(len(out) == 1, tag+".one_result")
		if len(out) == 1 {
			verifCheckTraces(orig, out[0], tag)
		}
	})
}

// The producer may run ahead of the consumer (batches queued, retried, recorded): with verifAhead set the
// decode-and-compare half of every round trip is postponed until verifFlushAhead, so that ALL batches of the
// harness are encoded before the first one is decoded; every batch must still decode to what it encoded.
var (
	verifAhead   bool
	verifPending []func()
)

func verifDecodeStep(f func()) {
	if verifAhead {
		verifPending = append(verifPending, f)
		return
	}
	f()
}

func verifFlushAhead() {
	for _, f := range verifPending {
		f()
	}
	verifPending = nil
	verifAhead = false
}

var verifSpanSeq byte

// verifSpanFields fills a span with symbolic scalar fields; group selects which are symbolic (others zero).
func verifSpanFields(sp ptrace.Span, tag string, group int) {
	verifSpanSeq++
	sp.SetSpanID(pcommon.SpanID{verifSpanSeq, 1, 1, 1, 1, 1, 1, 1}) // concrete and unique: the oracle's key
	var tid pcommon.TraceID
	tid[0] = rt.Uint8(tag + ".tid0")
	sp.SetTraceID(tid)
	start := rt.Uint64(tag + ".start")
	end := rt.Uint64(tag + ".end")
	rt.Assume(start <= 1<<63-1)
	rt.Assume(end <= 1<<63-1)
	sp.SetStartTimestamp(pcommon.Timestamp(start))
	sp.SetEndTimestamp(pcommon.Timestamp(end))
	sp.SetName(rt.String(tag+".name", 1))
	if group&1 != 0 {
		sp.SetKind(ptrace.SpanKind(rt.Int32(tag + ".kind")))
		sp.Status().SetCode(ptrace.StatusCode(rt.Int32(tag + ".status")))
		sp.SetDroppedAttributesCount(rt.Uint32(tag + ".dac"))
		sp.SetDroppedEventsCount(rt.Uint32(tag + ".dec"))
		sp.SetDroppedLinksCount(rt.Uint32(tag + ".dlc"))
	}
	if group&2 != 0 {
		sp.Status().SetMessage(rt.String(tag+".msg", 1))
		sp.TraceState().FromRaw(rt.String(tag+".state", 1))
		var ps pcommon.SpanID
		ps[0] = rt.Uint8(tag + ".parent0")
		sp.SetParentSpanID(ps)
	}
}

// VerifHarness_C01_rt_fields: one resource / scope, SPANS spans whose every scalar field is symbolic
// (zero and non-zero values both covered, so optional columns appear or not), BATCHES batches on one stream.
func VerifHarness_C01_rt_fields() {
	p, c := verifProducer(), verifConsumer()
	for b := 0; b < rt.Param("BATCHES"); b++ {
		td := ptrace.NewTraces()
		ss := td.ResourceSpans().AppendEmpty().ScopeSpans().AppendEmpty()
		for s := 0; s < rt.Param("SPANS"); s++ {
			verifSpanFields(ss.Spans().AppendEmpty(), "sp", rt.Param("GROUP"))
		}
		verifRoundTrip(p, c, td, "C01.rt")
	}
}

// VerifHarness_C01_rt_attrs: spans with symbolic attributes of every type (incl. empty key, unset value,
// nested list/map), resource and scope attributes.
func VerifHarness_C01_rt_attrs() {
	p, c := verifProducer(), verifConsumer()
	for b := 0; b < rt.Param("BATCHES"); b++ {
		td := ptrace.NewTraces()
		rs := td.ResourceSpans().AppendEmpty()
		verifAttrs(rs.Resource().Attributes(), "res", rt.Param("RATTRS"), 1|2|128)
		ss := rs.ScopeSpans().AppendEmpty()
		verifAttrs(ss.Scope().Attributes(), "scope", rt.Param("RATTRS"), 1|2|128)
		for s := 0; s < rt.Param("SPANS"); s++ {
			sp := ss.Spans().AppendEmpty()
			verifSpanFields(sp, "sp", 0)
			verifAttrs(sp.Attributes(), "sp.attr", rt.Param("ATTRS"), rt.Param("MASK"))
		}
		verifRoundTrip(p, c, td, "C01.rt")
	}
}

// VerifHarness_C01_rt_evlinks: spans with 0..1 event and 0..1 link, each with symbolic fields and 0..1 attribute.
func VerifHarness_C01_rt_evlinks() {
	p, c := verifProducer(), verifConsumer()
	for b := 0; b < rt.Param("BATCHES"); b++ {
		td := ptrace.NewTraces()
		ss := td.ResourceSpans().AppendEmpty().ScopeSpans().AppendEmpty()
		for s := 0; s < rt.Param("SPANS"); s++ {
			sp := ss.Spans().AppendEmpty()
			verifSpanFields(sp, "sp", 0)
			if rt.Bool("hasEvent") {
				ev := sp.Events().AppendEmpty()
				ev.SetName(rt.String("ev.name", 1))
				ts := rt.Uint64("ev.time")
				rt.Assume(ts <= 1<<63-1)
				ev.SetTimestamp(pcommon.Timestamp(ts))
				ev.SetDroppedAttributesCount(rt.Uint32("ev.dac"))
				verifAttrs(ev.Attributes(), "ev.attr", 1, 1|2)
			}
			if rt.Bool("hasLink") {
				lk := sp.Links().AppendEmpty()
				var tid pcommon.TraceID
				tid[0] = rt.Uint8("lk.tid0")
				lk.SetTraceID(tid)
				var sid pcommon.SpanID
				sid[0] = rt.Uint8("lk.sid0")
				lk.SetSpanID(sid)
				lk.TraceState().FromRaw(rt.String("lk.state", 1))
				lk.SetDroppedAttributesCount(rt.Uint32("lk.dac"))
				verifAttrs(lk.Attributes(), "lk.attr", 1, 1|2)
			}
		}
		verifRoundTrip(p, c, td, "C01.rt")
	}
}

// verifIdentityAttr puts one attribute with the fixed key "k" whose value is either a one-byte string or an
// integer (symbolic choice): resources/scopes built with it can be equal, differ in content, or be
// near-identical (same key, values differing only in type).
func verifIdentityAttr(m pcommon.Map, tag string) {
	if rt.Bool(tag + ".isStr") {
		m.PutStr("k", verifOne(tag+".str"))
	} else {
		m.PutInt("k", int64(rt.Uint8(tag+".int")))
	}
}

// VerifHarness_C01_rt_group: RES resources x SCOPES scopes x 1 span. Resource identity = (attribute "k" of
// symbolic type and value, one-byte schema URL); scope identity = (one-byte name, one-byte schema URL,
// attribute "k"). All may coincide, differ, or be near-identical, so every grouping/regrouping outcome of the
// optimizer and of the decoder is a feasible path.
func VerifHarness_C01_rt_group() {
	p, c := verifProducer(), verifConsumer()
	for b := 0; b < rt.Param("BATCHES"); b++ {
		td := ptrace.NewTraces()
		for r := 0; r < rt.Param("RES"); r++ {
			rs := td.ResourceSpans().AppendEmpty()
			verifIdentityAttr(rs.Resource().Attributes(), "res")
			rs.SetSchemaUrl(verifOne("res.url"))
			for s := 0; s < rt.Param("SCOPES"); s++ {
				ss := rs.ScopeSpans().AppendEmpty()
				ss.Scope().SetName(verifOne("scope.name"))
				ss.SetSchemaUrl(verifOne("scope.url"))
				if rt.Param("SCOPEATTR") == 1 {
					verifIdentityAttr(ss.Scope().Attributes(), "scope")
				}
				verifSpanFields(ss.Spans().AppendEmpty(), "sp", 0)
			}
		}
		verifRoundTrip(p, c, td, "C01.rt")
	}
}

// ======================= logs =======================
