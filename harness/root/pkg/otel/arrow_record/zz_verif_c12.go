package arrow_record

import (
	"sync"

	"go.opentelemetry.io/collector/pdata/pcommon"
	"go.opentelemetry.io/collector/pdata/plog"
	"go.opentelemetry.io/collector/pdata/pmetric"
	"go.opentelemetry.io/collector/pdata/ptrace"

	"github.com/apache/arrow-go/v18/arrow/array"
	"github.com/apache/arrow-go/v18/arrow/ipc"

	colarspb "github.com/open-telemetry/otel-arrow/api/experimental/arrow/v1"
	carrow "github.com/open-telemetry/otel-arrow/pkg/arrow"
	rt "github.com/open-telemetry/otel-arrow/zzverifrt"
)

// "odd" inputs for the history harness: the resource attribute has another TYPE than in the rich inputs (so
// the RESOURCE_ATTRS schema differs between calls and between signals), and every record-level attribute is
// one the encoder skips (unset value), so the record-level attribute table receives maps but no rows.
func verifOddTraces(seed int) ptrace.Traces {
	td := ptrace.NewTraces()
	rs := td.ResourceSpans().AppendEmpty()
	rs.Resource().Attributes().PutInt("service", 7)
	ss := rs.ScopeSpans().AppendEmpty()
	for i := 0; i < 2; i++ {
		sp := ss.Spans().AppendEmpty()
		sp.SetSpanID(pcommon.SpanID{byte(seed), byte(i + 1), 2})
		sp.SetTraceID(pcommon.TraceID{byte(i + 1)})
		sp.SetName("span")
		sp.Attributes().PutEmpty("unset")
	}
	return td
}

func verifOddLogs(seed int) plog.Logs {
	ld := plog.NewLogs()
	rl := ld.ResourceLogs().AppendEmpty()
	rl.Resource().Attributes().PutInt("service", 7)
	sl := rl.ScopeLogs().AppendEmpty()
	for i := 0; i < 2; i++ {
		lr := sl.LogRecords().AppendEmpty()
		lr.SetTimestamp(pcommon.Timestamp(1000 + seed + i))
		lr.SetSpanID(pcommon.SpanID{byte(seed + 1), byte(i + 1), 2})
		lr.Attributes().PutEmpty("unset")
	}
	return ld
}

func verifOddMetrics(seed int) pmetric.Metrics {
	md := pmetric.NewMetrics()
	rm := md.ResourceMetrics().AppendEmpty()
	rm.Resource().Attributes().PutInt("service", 7)
	sm := rm.ScopeMetrics().AppendEmpty()
	sm.Scope().Attributes().PutEmpty("unset")
	m := sm.Metrics().AppendEmpty()
	m.SetName("s")
	dp := m.SetEmptySum().DataPoints().AppendEmpty()
	dp.SetDoubleValue(1.5)
	dp.SetTimestamp(pcommon.Timestamp(1000 + seed))
	return md
}

// VerifHarness_C12_history: a history of CALLS Produce calls on ONE producer, each call a decision among
// {traces, logs, metrics} x {poor, rich} telemetry (so signals interleave, optional columns and related
// records appear and disappear, and main/related schemas change mid-stream). Framing (C12): batch ids count
// up from zero; the first payload is the signal's main record; payload types are distinct within a batch;
// related payloads are non-empty; a schema id denotes one payload type and one Arrow schema for ever and is
// never used again once its payload type has moved to another schema; the payloads of one schema id come
// from one IPC writer, in order, starting with its schema-carrying first message. Release (C15): after
// Close every record, array, builder and IPC writer the producer created has been released.
func VerifHarness_C12_history() {
	liveBefore := array.VerifLive
	writersBefore := ipc.VerifOpenWriters
	p := verifProducer()
	mains := []colarspb.ArrowPayloadType{colarspb.ArrowPayloadType_SPANS, colarspb.ArrowPayloadType_LOGS, colarspb.ArrowPayloadType_UNIVARIATE_METRICS}
	type binding struct {
		typ    colarspb.ArrowPayloadType
		schema string
		stream int
		seq    int
	}
	bound := map[string]*binding{}                       // schema id -> what it denotes
	current := map[colarspb.ArrowPayloadType]string{}    // payload type -> schema id in use
	retired := map[string]bool{}                         // schema ids whose type has moved on
	type emitted struct {
		pl   *colarspb.ArrowPayload
		copy []byte
	}
	var all []emitted // every payload handed out, with a private copy of its bytes at emission time
	for call := 0; call < rt.Param("CALLS"); call++ {
		signal := rt.Int("signal")
		rt.Assume(signal >= 0)
		rt.Assume(signal <= 2)
		level := rt.Int("level") // 0 poor, 1 rich, 2 odd
		rt.Assume(level >= 0)
		rt.Assume(level <= 2)
		var bar *colarspb.BatchArrowRecords
		var err error
		switch signal {
		case 0:
			if level == 2 {
				bar, err = p.BatchArrowRecordsFromTraces(verifOddTraces(call))
			} else {
				bar, err = p.BatchArrowRecordsFromTraces(verifFixedTraces(call, level == 1))
			}
		case 1:
			if level == 2 {
				bar, err = p.BatchArrowRecordsFromLogs(verifOddLogs(call))
			} else {
				bar, err = p.BatchArrowRecordsFromLogs(verifFixedLogs(call, level == 1))
			}
		default:
			if level == 2 {
				bar, err = p.BatchArrowRecordsFromMetrics(verifOddMetrics(call))
			} else {
				bar, err = p.BatchArrowRecordsFromMetrics(verifFixedMetrics(call, level == 1))
			}
		}
		rt.Assert(err == nil, "C12.history.produce_ok")
		if err != nil {
			return
		}
		rt.Assert(bar.BatchId == int64(call), "C12.history.batch_ids_count_up")
		rt.Assert(len(bar.ArrowPayloads) >= 1 && bar.ArrowPayloads[0].Type == mains[signal], "C12.history.main_record_first")
		seenType := map[colarspb.ArrowPayloadType]bool{}
		for k, pl := range bar.ArrowPayloads {
			rt.Assert(!seenType[pl.Type], "C12.history.payload_types_distinct")
			seenType[pl.Type] = true
			all = append(all, emitted{pl, append([]byte(nil), pl.Record...)})
			tok, ok := ipc.VerifTokenOf(pl.Record)
			rt.Assert(ok, "C12.history.payload_is_one_ipc_message")
			if !ok {
				continue
			}
			if k > 0 {
				rt.Assert(tok.Rec.NumRows() > 0, "C12.history.related_payload_non_empty")
			}
			rt.Assert(!retired[pl.SchemaId], "C12.history.retired_schema_id_not_reused")
			sk := carrow.SchemaToID(tok.Schema)
			b := bound[pl.SchemaId]
			if b == nil {
				b = &binding{typ: pl.Type, schema: sk, stream: tok.Stream, seq: -1}
				bound[pl.SchemaId] = b
				if old, had := current[pl.Type]; had && old != pl.SchemaId {
					retired[old] = true
				}
				current[pl.Type] = pl.SchemaId
			}
			rt.Assert(b.typ == pl.Type && b.schema == sk, "C12.history.schema_id_denotes_one_type_and_schema")
			rt.Assert(current[pl.Type] == pl.SchemaId, "C12.history.one_live_schema_id_per_type")
			rt.Assert(tok.Stream == b.stream && tok.Seq == b.seq+1, "C12.history.one_ordered_ipc_stream_per_schema_id")
			b.seq = tok.Seq
		}
	}
	// batches already handed out (queued, retried, recorded) stay what they were when later batches are produced
	for _, e := range all {
		rt.Assert(verifBytesEq(e.pl.Record, e.copy), "C12.history.emitted_payloads_stay_intact")
	}
	rt.Assert(p.Close() == nil, "C15.release.close_ok")
	rt.Assert(array.VerifLive == liveBefore, "C15.release.all_records_arrays_builders_released")
	rt.Assert(ipc.VerifOpenWriters == writersBefore, "C15.release.all_ipc_writers_closed")
}

// VerifHarness_C16_independent: producer/consumer pair A runs a history first; then everything reachable from
// A and from every package-level variable of the repository is watched while pair B (created with other
// options) runs its own history: no store may hit a watched cell (no shared mutable state), and B's batches
// decode to exactly what was encoded (so B behaves as it would alone).
func VerifHarness_C16_independent() {
	pa, ca := verifProducer(), verifConsumer()
	for b := 0; b < 2; b++ {
		verifRoundTrip(pa, ca, verifFixedTraces(b, b == 1), "C16.A")
		verifRoundTripLogs(pa, ca, verifFixedLogs(b, b == 1), "C16.A")
		verifRoundTripMetrics(pa, ca, verifFixedMetrics(b, b == 1), "C16.A")
	}
	// everything reachable from A and from every package-level variable is watched from here on: B is created
	// (with symbolic options) and driven under the watch
	rt.WatchBegin("pair A", pa)
	rt.WatchBegin("pair A", ca)
	rt.WatchGlobals("github.com/open-telemetry/otel-arrow")
	opt := rt.Int("optionsOfB")
	rt.Assume(opt >= 0)
	rt.Assume(opt <= 3)
	pb, cb := verifProducerOpt(opt), verifConsumer()
	for b := 0; b < 2; b++ {
		rich := rt.Bool("rich")
		verifRoundTrip(pb, cb, verifFixedTraces(10+b, rich), "C16.B")
		verifRoundTripLogs(pb, cb, verifFixedLogs(10+b, rich), "C16.B")
		verifRoundTripMetrics(pb, cb, verifFixedMetrics(10+b, rich), "C16.B")
	}
	rt.WatchReport()
	// race-level: EVERY store into the watched set counts, also one that writes the value already there
	rt.Assert(rt.WatchHitsTag("pair A") == 0 && rt.WatchHitsTag("global") == 0, "C16.independent.no_write_to_shared_state")
	rt.WatchEnd()
	// and A is still usable and correct after B ran
	verifRoundTrip(pa, ca, verifFixedTraces(3, true), "C16.A_after_B")
}

// VerifHarness_C16_race: two producer/consumer pairs are created and driven by two goroutines at the same time
// (B with symbolic options), under the engine's happens-before race detector: no heap cell or map may be
// accessed by both goroutines with at least one write and no synchronisation in between - i.e. the pairs share
// no mutable state - on every schedule within the delay bound; and each pair decodes what it encoded.
// verifComplexTraces / verifComplexLogs: the fixed inputs plus a map- and a slice-valued attribute (and a map
// body), which are serialised as CBOR by the encoder.
func verifComplexTraces(seed int, rich bool, owner string) ptrace.Traces {
	td := verifFixedTraces(seed, rich)
	sp := td.ResourceSpans().At(0).ScopeSpans().At(0).Spans().At(0)
	sp.Attributes().PutEmptyMap("cm").PutStr("owner", owner)
	sp.Attributes().PutEmptySlice("cs").AppendEmpty().SetStr(owner)
	return td
}

func verifComplexLogs(seed int, rich bool, owner string) plog.Logs {
	ld := verifFixedLogs(seed, rich)
	lr := ld.ResourceLogs().At(0).ScopeLogs().At(0).LogRecords().At(0)
	lr.Body().SetEmptyMap().PutStr("owner", owner)
	lr.Attributes().PutEmptyMap("cm").PutStr("owner", owner)
	return ld
}

func VerifHarness_C16_race() {
	rt.RaceBegin()
	opt := rt.Int("optionsOfB")
	rt.Assume(opt >= 0)
	rt.Assume(opt <= 4)
	optA := 0
	if rt.Bool("aUsesAttrOrderOption") {
		optA = 4
	}
	richA, richB := rt.Bool("richA"), rt.Bool("richB")
	var wg sync.WaitGroup
	wg.Add(2)
	go func() {
		defer wg.Done()
		pa, ca := verifProducerOpt(optA), verifConsumer()
		for b := 0; b < 2; b++ {
			verifRoundTrip(pa, ca, verifComplexTraces(b, richA || b == 1, "A"), "C16.A")
			verifRoundTripLogs(pa, ca, verifComplexLogs(b, richA || b == 1, "A"), "C16.A")
			verifRoundTripMetrics(pa, ca, verifFixedMetrics(b, richA || b == 1), "C16.A")
		}
		_ = pa.Close()
		ca.Close()
	}()
	go func() {
		defer wg.Done()
		pb, cb := verifProducerOpt(opt), verifConsumer()
		for b := 0; b < 2; b++ {
			verifRoundTrip(pb, cb, verifComplexTraces(10+b, richB, "B"), "C16.B")
			verifRoundTripLogs(pb, cb, verifComplexLogs(10+b, richB, "B"), "C16.B")
			verifRoundTripMetrics(pb, cb, verifFixedMetrics(10+b, richB), "C16.B")
		}
		_ = pb.Close()
		cb.Close()
	}()
	wg.Wait()
	rt.Assert(rt.RaceCount() == 0, "C16.race.no_data_race_between_pairs")
}

// VerifHarness_C12_ids_after_failure: BATCHES Produce calls (traces, then logs, then traces ...) during which ONE
// write inside the IPC writer fails (which one is symbolic; none at all is included): the failed call returns an
// error and emits nothing; the batch ids of the batches that ARE emitted still count up by one from zero.
func VerifHarness_C12_ids_after_failure() {
	p := verifProducer()
	failAt := rt.Int("failAtWrite")
	rt.Assume(failAt >= 0)
	rt.Assume(failAt <= rt.Param("WRITES"))
	writes := 0
	ipc.VerifWriteFault = func() bool {
		writes++
		return writes-1 == failAt
	}
	defer func() { ipc.VerifWriteFault = nil }()
	next := int64(0)
	failed := 0
	for b := 0; b < rt.Param("BATCHES"); b++ {
		var bar *colarspb.BatchArrowRecords
		var err error
		if b%2 == 0 {
			bar, err = p.BatchArrowRecordsFromTraces(verifFixedTraces(b, b > 0))
		} else {
			bar, err = p.BatchArrowRecordsFromLogs(verifFixedLogs(b, true))
		}
		if err != nil {
			failed++
			continue
		}
		rt.Assert(bar.BatchId == next, "C12.ids_after_failure.emitted_ids_count_up_by_one")
		next++
	}
	_ = failed // (whether later calls succeed after a fault is not a framing clause: nothing is asserted about it)
	rt.Reach("C12.ids_after_failure.done")
}
