package arrow_record

import (
	"go.opentelemetry.io/collector/pdata/pcommon"
	"go.opentelemetry.io/collector/pdata/plog"
	"go.opentelemetry.io/collector/pdata/pmetric"
	"go.opentelemetry.io/collector/pdata/ptrace"

	cfg "github.com/open-telemetry/otel-arrow/pkg/config"
	rt "github.com/open-telemetry/otel-arrow/zzverifrt"
)

// The "multi" harnesses keep almost everything concrete and make symbolic exactly what the stateful parts of
// the codec depend on across ITEMS and across BATCHES: which items carry attributes/events/links/exemplars,
// and whether their (fixed-key) attribute values are equal, smaller or larger than their neighbours'. They
// cover what the one-item harnesses cannot: delta/sorter state carried from one row to the next, from one
// build attempt to the next (schema-update rebuilds inside a batch) and from one batch to the next.

// verifOptAttr puts 0..1 attribute with a fixed key and a symbolic one-byte string value.
func verifOptAttr(m pcommon.Map, tag, key string) {
	if rt.Bool(tag + ".present") {
		m.PutStr(key, verifOne(tag+".val"))
	}
}

// verifProducerSym: a producer whose public options are symbolic: span order (all 7 values), dictionary mode
// (default / disabled / 8-bit limit / 16-bit initial index), reset threshold (0 / default / 1).
func verifProducerSym() *Producer {
	ord := rt.Int("opt.orderSpanBy")
	rt.Assume(ord >= 0)
	rt.Assume(ord <= 6)
	opts := []cfg.Option{cfg.WithNoZstd(), cfg.WithOrderSpanBy(cfg.OrderSpanBy(ord))}
	dict := rt.Int("opt.dict")
	rt.Assume(dict >= 0)
	rt.Assume(dict <= 3)
	switch dict {
	case 1:
		opts = append(opts, cfg.WithNoDictionary())
	case 2:
		opts = append(opts, cfg.WithUint8LimitDictIndex())
	case 3:
		opts = append(opts, cfg.WithUint16InitDictIndex())
	}
	thr := rt.Int("opt.resetThreshold")
	rt.Assume(thr >= 0)
	rt.Assume(thr <= 2)
	switch thr {
	case 1:
		opts = append(opts, cfg.WithDictResetThreshold(0))
	case 2:
		opts = append(opts, cfg.WithDictResetThreshold(1))
	}
	return NewProducerWithOptions(opts...)
}

// VerifHarness_C01_rt_multi: BATCHES batches of SPANS spans (distinct concrete span ids); per span, as
// enabled by ATTR / EV / LK: 0..1 span attribute, 0..1 event with 0..1 attribute, 0..1 link with 0..1 attribute.
func VerifHarness_C01_rt_multi() {
	p, c := verifProducer(), verifConsumer()
	verifAhead = rt.Param("AHEAD") == 1
	defer verifFlushAhead()
	if rt.Param("OPT") == 1 {
		p = verifProducerSym()
	}
	if rt.Param("OPT") == 2 {
		// the one non-default attribute order whose parent-id encoding the consumer assumes (see KF-B)
		p = NewProducerWithOptions(cfg.WithNoZstd(), cfg.WithOrderAttrs32By(cfg.OrderAttrs32ByKeyValueParentId))
	}
	for b := 0; b < rt.Param("BATCHES"); b++ {
		td := ptrace.NewTraces()
		ss := td.ResourceSpans().AppendEmpty().ScopeSpans().AppendEmpty()
		for s := 0; s < rt.Param("SPANS"); s++ {
			sp := ss.Spans().AppendEmpty()
			sp.SetSpanID(pcommon.SpanID{byte(b + 1), byte(s + 1)})
			sp.SetTraceID(pcommon.TraceID{1})
			if rt.Param("OPT") == 1 {
				sp.SetName(verifOne("sp.name")) // the span order options compare names
			} else {
				sp.SetName("span")
			}
			sp.SetStartTimestamp(pcommon.Timestamp(100 + s))
			sp.SetEndTimestamp(pcommon.Timestamp(200 + s))
			if rt.Param("ATTR") == 1 {
				verifOptAttr(sp.Attributes(), "sp.attr", "k")
			}
			if rt.Param("EV") == 1 && rt.Bool("hasEvent") {
				ev := sp.Events().AppendEmpty()
				ev.SetName("e")
				ev.SetTimestamp(pcommon.Timestamp(150))
				verifOptAttr(ev.Attributes(), "ev.attr", "k")
			}
			if rt.Param("LK") == 1 && rt.Bool("hasLink") {
				lk := sp.Links().AppendEmpty()
				lk.SetTraceID(pcommon.TraceID{2})
				lk.SetSpanID(pcommon.SpanID{3})
				verifOptAttr(lk.Attributes(), "lk.attr", "k")
			}
		}
		verifRoundTrip(p, c, td, "C01.rt")
	}
}

// VerifHarness_C02_rt_multi: BATCHES batches of RECORDS log records (distinct concrete span ids), each with
// 0..1 attribute (fixed key, symbolic one-byte value) and a body that is absent or a one-byte string.
func VerifHarness_C02_rt_multi() {
	p, c := verifProducer(), verifConsumer()
	verifAhead = rt.Param("AHEAD") == 1
	defer verifFlushAhead()
	for b := 0; b < rt.Param("BATCHES"); b++ {
		ld := plog.NewLogs()
		sl := ld.ResourceLogs().AppendEmpty().ScopeLogs().AppendEmpty()
		for r := 0; r < rt.Param("RECORDS"); r++ {
			lr := sl.LogRecords().AppendEmpty()
			lr.SetSpanID(pcommon.SpanID{byte(b + 1), byte(r + 1)})
			lr.SetTimestamp(pcommon.Timestamp(100 + r))
			verifOptAttr(lr.Attributes(), "lr.attr", "k")
			if rt.Bool("hasBody") {
				lr.Body().SetStr(verifOne("body"))
			}
		}
		verifRoundTripLogs(p, c, ld, "C02.rt")
	}
}

// VerifHarness_C03_rt_multi: BATCHES batches of one gauge with POINTS data points (distinct concrete times,
// concrete int values); per point 0..1 attribute and 0..1 exemplar whose value is a symbolic int or a symbolic
// double and which carries 0..1 filtered attribute.
func VerifHarness_C03_rt_multi() {
	p, c := verifProducer(), verifConsumer()
	verifAhead = rt.Param("AHEAD") == 1
	defer verifFlushAhead()
	if rt.Param("OPT") == 2 {
		p = NewProducerWithOptions(cfg.WithNoZstd(), cfg.WithOrderAttrs32By(cfg.OrderAttrs32ByKeyValueParentId))
	}
	for b := 0; b < rt.Param("BATCHES"); b++ {
		md := pmetric.NewMetrics()
		m := md.ResourceMetrics().AppendEmpty().ScopeMetrics().AppendEmpty().Metrics().AppendEmpty()
		m.SetName("g")
		dps := m.SetEmptyGauge().DataPoints()
		for i := 0; i < rt.Param("POINTS"); i++ {
			dp := dps.AppendEmpty()
			dp.SetTimestamp(pcommon.Timestamp(100 + i))
			dp.SetIntValue(int64(i + 1))
			if rt.Param("ATTR") == 1 {
				verifOptAttr(dp.Attributes(), "dp.attr", "k")
			}
			if rt.Param("EX") == 1 && rt.Bool("hasExemplar") {
				ex := dp.Exemplars().AppendEmpty()
				ex.SetTimestamp(pcommon.Timestamp(50))
				if rt.Bool("ex.isInt") {
					ex.SetIntValue(rt.Int64("ex.int"))
				} else {
					ex.SetDoubleValue(rt.Float64("ex.double"))
				}
				if rt.Param("EXATTR") == 1 {
					verifOptAttr(ex.FilteredAttributes(), "ex.attr", "k")
				}
			}
		}
		verifRoundTripMetrics(p, c, md, "C03.rt")
	}
}

// ---- grouping shapes ----
// SLOTS (resource, scope, item) triples; per slot a symbolic choice of resource (A or B, distinguished by
// an attribute) and of scope (X with attribute a=1, or Y with attribute b=2): the same scope under different
// resources, scopes re-appearing after another scope, resources split over several container entries — every
// grouping/regrouping outcome of the optimizers and of the decoders. Items carry concrete unique ids.

func verifShapeResource(res pcommon.Resource, tag string) {
	if rt.Bool(tag + ".isB") {
		res.Attributes().PutStr("service", "B")
	} else {
		res.Attributes().PutStr("service", "A")
	}
}

func verifShapeScope(sc pcommon.InstrumentationScope, tag string) {
	sc.SetVersion("1.0")
	if rt.Bool(tag + ".isY") {
		sc.SetName("Y")
		sc.Attributes().PutInt("b", 2)
	} else {
		sc.SetName("X")
		sc.Attributes().PutInt("a", 1)
	}
}

func VerifHarness_C02_rt_shape() {
	p, c := verifProducer(), verifConsumer()
	for b := 0; b < rt.Param("BATCHES"); b++ {
		ld := plog.NewLogs()
		for s := 0; s < rt.Param("SLOTS"); s++ {
			rl := ld.ResourceLogs().AppendEmpty()
			verifShapeResource(rl.Resource(), "res")
			sl := rl.ScopeLogs().AppendEmpty()
			verifShapeScope(sl.Scope(), "scope")
			lr := sl.LogRecords().AppendEmpty()
			lr.SetSpanID(pcommon.SpanID{byte(b + 1), byte(s + 1)})
			lr.SetTimestamp(pcommon.Timestamp(100 + s))
		}
		verifRoundTripLogs(p, c, ld, "C02.rt")
	}
}

func VerifHarness_C01_rt_shape() {
	p, c := verifProducer(), verifConsumer()
	for b := 0; b < rt.Param("BATCHES"); b++ {
		td := ptrace.NewTraces()
		for s := 0; s < rt.Param("SLOTS"); s++ {
			rs := td.ResourceSpans().AppendEmpty()
			verifShapeResource(rs.Resource(), "res")
			ss := rs.ScopeSpans().AppendEmpty()
			verifShapeScope(ss.Scope(), "scope")
			sp := ss.Spans().AppendEmpty()
			sp.SetSpanID(pcommon.SpanID{byte(b + 1), byte(s + 1)})
			sp.SetTraceID(pcommon.TraceID{1})
			sp.SetName("span")
		}
		verifRoundTrip(p, c, td, "C01.rt")
	}
}

// VerifHarness_C03_rt_mix: BATCHES batches of METRICS metrics (distinct concrete names) whose TYPE is symbolic
// (gauge, sum, histogram, exponential histogram, summary), each with POINTS data points (distinct concrete
// times, concrete values) carrying 0..1 attribute (fixed key, symbolic one-byte value): mixed types in one
// batch, several points per metric, several metrics per batch — the parent-id chains metric -> data point ->
// attributes across rows, record types and batches.
func VerifHarness_C03_rt_mix() {
	p, c := verifProducer(), verifConsumer()
	verifAhead = rt.Param("AHEAD") == 1
	defer verifFlushAhead()
	for b := 0; b < rt.Param("BATCHES"); b++ {
		md := pmetric.NewMetrics()
		sm := md.ResourceMetrics().AppendEmpty().ScopeMetrics().AppendEmpty()
		for k := 0; k < rt.Param("METRICS"); k++ {
			m := sm.Metrics().AppendEmpty()
			m.SetName(string([]byte{'m', byte('0' + k)}))
			kind := rt.Int("kind")
			rt.Assume(kind >= 1)
			rt.Assume(kind <= 5)
			for i := 0; i < rt.Param("POINTS"); i++ {
				ts := pcommon.Timestamp(100 + 10*k + i)
				switch kind {
				case 1:
					if i == 0 {
						m.SetEmptyGauge()
					}
					dp := m.Gauge().DataPoints().AppendEmpty()
					dp.SetTimestamp(ts)
					dp.SetIntValue(int64(i + 1))
					verifOptAttr(dp.Attributes(), "dp.attr", "k")
				case 2:
					if i == 0 {
						m.SetEmptySum().SetIsMonotonic(true)
					}
					dp := m.Sum().DataPoints().AppendEmpty()
					dp.SetTimestamp(ts)
					dp.SetDoubleValue(1.5)
					verifOptAttr(dp.Attributes(), "dp.attr", "k")
				case 3:
					if i == 0 {
						m.SetEmptyHistogram().SetAggregationTemporality(pmetric.AggregationTemporalityDelta)
					}
					dp := m.Histogram().DataPoints().AppendEmpty()
					dp.SetTimestamp(ts)
					dp.SetCount(3)
					dp.SetSum(2.5)
					dp.BucketCounts().FromRaw([]uint64{1, 2})
					dp.ExplicitBounds().FromRaw([]float64{5})
					verifOptAttr(dp.Attributes(), "dp.attr", "k")
				case 4:
					if i == 0 {
						m.SetEmptyExponentialHistogram().SetAggregationTemporality(pmetric.AggregationTemporalityCumulative)
					}
					dp := m.ExponentialHistogram().DataPoints().AppendEmpty()
					dp.SetTimestamp(ts)
					dp.SetCount(4)
					dp.SetScale(1)
					dp.Positive().SetOffset(1)
					dp.Positive().BucketCounts().FromRaw([]uint64{4})
					verifOptAttr(dp.Attributes(), "dp.attr", "k")
				default:
					if i == 0 {
						m.SetEmptySummary()
					}
					dp := m.Summary().DataPoints().AppendEmpty()
					dp.SetTimestamp(ts)
					dp.SetCount(2)
					dp.SetSum(3)
					q := dp.QuantileValues().AppendEmpty()
					q.SetQuantile(0.5)
					q.SetValue(1.25)
					verifOptAttr(dp.Attributes(), "dp.attr", "k")
				}
			}
		}
		verifRoundTripMetrics(p, c, md, "C03.rt")
	}
}

// verifSkippable puts into m one attribute the encoder may skip — symbolic choice among a regular one, one with
// an empty key, one with an unset value — followed by a regular attribute.
func verifSkippable(m pcommon.Map, tag string) {
	k := rt.Int(tag + ".kind")
	rt.Assume(k >= 0)
	rt.Assume(k <= 2)
	switch k {
	case 0:
		m.PutStr("a", "v")
	case 1:
		m.PutStr("", "v")
	default:
		m.PutEmpty("a")
	}
	m.PutInt("z", 1)
}

// VerifHarness_C15_input_skipped: inputs whose resource / scope / record attribute maps hold attributes the
// encoder skips (empty key, unset value): SIGNAL 0 traces, 1 logs, 2 metrics (resource, scope, data point).
func VerifHarness_C15_input_skipped() {
	p, c := verifProducer(), verifConsumer()
	switch rt.Param("SIGNAL") {
	case 0:
		td := ptrace.NewTraces()
		rs := td.ResourceSpans().AppendEmpty()
		verifSkippable(rs.Resource().Attributes(), "res")
		ss := rs.ScopeSpans().AppendEmpty()
		verifSkippable(ss.Scope().Attributes(), "scope")
		sp := ss.Spans().AppendEmpty()
		sp.SetSpanID(pcommon.SpanID{1})
		sp.SetTraceID(pcommon.TraceID{1})
		verifSkippable(sp.Attributes(), "span")
		verifSkippable(sp.Events().AppendEmpty().Attributes(), "event")
		verifSkippable(sp.Links().AppendEmpty().Attributes(), "link")
		verifRoundTrip(p, c, td, "C01.rt")
	case 1:
		ld := plog.NewLogs()
		rl := ld.ResourceLogs().AppendEmpty()
		verifSkippable(rl.Resource().Attributes(), "res")
		sl := rl.ScopeLogs().AppendEmpty()
		verifSkippable(sl.Scope().Attributes(), "scope")
		lr := sl.LogRecords().AppendEmpty()
		lr.SetSpanID(pcommon.SpanID{1})
		verifSkippable(lr.Attributes(), "record")
		verifRoundTripLogs(p, c, ld, "C02.rt")
	default:
		md := pmetric.NewMetrics()
		rm := md.ResourceMetrics().AppendEmpty()
		verifSkippable(rm.Resource().Attributes(), "res")
		sm := rm.ScopeMetrics().AppendEmpty()
		verifSkippable(sm.Scope().Attributes(), "scope")
		m := sm.Metrics().AppendEmpty()
		m.SetName("g")
		dp := m.SetEmptyGauge().DataPoints().AppendEmpty()
		dp.SetIntValue(1)
		dp.SetTimestamp(pcommon.Timestamp(100))
		verifSkippable(dp.Attributes(), "point")
		verifSkippable(dp.Exemplars().AppendEmpty().FilteredAttributes(), "exemplar")
		verifRoundTripMetrics(p, c, md, "C03.rt")
	}
}

// VerifHarness_rt_parents: PARENTS (3) distinct resources, each with one distinct scope and one item; the
// resource, the scope and the item each carry the attribute "k" with a symbolic one-byte value (WHICH = 0: on the
// resources, 1: on the scopes, 2: on the items; the others carry none). Three or more parents of one attribute
// table sharing a key with equal or different values: the delta-group parent-id encoding of that table is
// exercised beyond the first two ids (a parent-id delta >= 2, a group change after the second parent).
func verifParents(sig int) {
	p, c := verifProducer(), verifConsumer()
	n := rt.Param("PARENTS")
	which := rt.Param("WHICH")
	at := func(m pcommon.Map, level int, tag string) {
		if level == which {
			m.PutStr("k", verifOne(tag))
		}
	}
	switch sig {
	case 0:
		td := ptrace.NewTraces()
		for i := 0; i < n; i++ {
			rs := td.ResourceSpans().AppendEmpty()
			rs.SetSchemaUrl(string([]byte{'u', byte('0' + i)}))
			at(rs.Resource().Attributes(), 0, "res.k")
			ss := rs.ScopeSpans().AppendEmpty()
			ss.Scope().SetName(string([]byte{'s', byte('0' + i)}))
			at(ss.Scope().Attributes(), 1, "scope.k")
			sp := ss.Spans().AppendEmpty()
			sp.SetSpanID(pcommon.SpanID{1, byte(i + 1)})
			sp.SetTraceID(pcommon.TraceID{1})
			sp.SetName("span")
			at(sp.Attributes(), 2, "item.k")
		}
		verifRoundTrip(p, c, td, "C01.rt")
	case 1:
		ld := plog.NewLogs()
		for i := 0; i < n; i++ {
			rl := ld.ResourceLogs().AppendEmpty()
			rl.SetSchemaUrl(string([]byte{'u', byte('0' + i)}))
			at(rl.Resource().Attributes(), 0, "res.k")
			sl := rl.ScopeLogs().AppendEmpty()
			sl.Scope().SetName(string([]byte{'s', byte('0' + i)}))
			at(sl.Scope().Attributes(), 1, "scope.k")
			lr := sl.LogRecords().AppendEmpty()
			lr.SetSpanID(pcommon.SpanID{1, byte(i + 1)})
			lr.SetTimestamp(pcommon.Timestamp(100 + i))
			at(lr.Attributes(), 2, "item.k")
		}
		verifRoundTripLogs(p, c, ld, "C02.rt")
	default:
		md := pmetric.NewMetrics()
		for i := 0; i < n; i++ {
			rm := md.ResourceMetrics().AppendEmpty()
			rm.SetSchemaUrl(string([]byte{'u', byte('0' + i)}))
			at(rm.Resource().Attributes(), 0, "res.k")
			sm := rm.ScopeMetrics().AppendEmpty()
			sm.Scope().SetName(string([]byte{'s', byte('0' + i)}))
			at(sm.Scope().Attributes(), 1, "scope.k")
			m := sm.Metrics().AppendEmpty()
			m.SetName(string([]byte{'m', byte('0' + i)}))
			dp := m.SetEmptyGauge().DataPoints().AppendEmpty()
			dp.SetTimestamp(pcommon.Timestamp(100 + i))
			dp.SetIntValue(int64(i + 1))
			at(dp.Attributes(), 2, "item.k")
		}
		verifRoundTripMetrics(p, c, md, "C03.rt")
	}
}

func VerifHarness_C01_rt_parents() { verifParents(0) }
func VerifHarness_C02_rt_parents() { verifParents(1) }
func VerifHarness_C03_rt_parents() { verifParents(2) }

// VerifHarness_rt_attrs32: the 32-bit attribute tables (span events, span links, data points, exemplars) with
// 0..ATTRS attributes whose keys are symbolic (one byte or EMPTY) and whose values are of EVERY type (Str, Int,
// Double, Bool, Bytes, one-element Slice/Map, Empty) - the same value space the 16-bit tables get in rt_attrs.
// WHERE = 0: one event, 1: one link, 2: one gauge data point, 3: one exemplar.
func verifAttrs32(where int) {
	p, c := verifProducer(), verifConsumer()
	n := rt.Param("ATTRS")
	switch where {
	case 0, 1:
		td := ptrace.NewTraces()
		sp := td.ResourceSpans().AppendEmpty().ScopeSpans().AppendEmpty().Spans().AppendEmpty()
		sp.SetSpanID(pcommon.SpanID{1, 1})
		sp.SetTraceID(pcommon.TraceID{1})
		sp.SetName("span")
		if where == 0 {
			ev := sp.Events().AppendEmpty()
			ev.SetName("e")
			ev.SetTimestamp(pcommon.Timestamp(150))
			verifAttrs(ev.Attributes(), "ev.attr", n, 255)
		} else {
			lk := sp.Links().AppendEmpty()
			lk.SetTraceID(pcommon.TraceID{2})
			lk.SetSpanID(pcommon.SpanID{3})
			verifAttrs(lk.Attributes(), "lk.attr", n, 255)
		}
		verifRoundTrip(p, c, td, "C01.rt")
	default:
		md := pmetric.NewMetrics()
		m := md.ResourceMetrics().AppendEmpty().ScopeMetrics().AppendEmpty().Metrics().AppendEmpty()
		m.SetName("g")
		dp := m.SetEmptyGauge().DataPoints().AppendEmpty()
		dp.SetTimestamp(pcommon.Timestamp(100))
		dp.SetIntValue(1)
		if where == 2 {
			verifAttrs(dp.Attributes(), "dp.attr", n, 255)
		} else {
			ex := dp.Exemplars().AppendEmpty()
			ex.SetTimestamp(pcommon.Timestamp(50))
			ex.SetIntValue(7)
			verifAttrs(ex.FilteredAttributes(), "ex.attr", n, 255)
		}
		verifRoundTripMetrics(p, c, md, "C03.rt")
	}
}

func VerifHarness_C01_rt_attrs32() { verifAttrs32(rt.Param("WHERE")) }
func VerifHarness_C03_rt_attrs32() { verifAttrs32(rt.Param("WHERE")) }

// VerifHarness_C03_rt_shape: grouping shapes for metrics - SLOTS slots, each a ResourceMetrics with resource A or
// B (symbolic) holding one ScopeMetrics with scope X or Y (symbolic, different attributes) holding one gauge
// metric (distinct concrete name) with one point: equal resources/scopes may be merged and reordered, but every
// metric must come back under a resource and a scope with the original content.
func VerifHarness_C03_rt_shape() {
	p, c := verifProducer(), verifConsumer()
	for b := 0; b < rt.Param("BATCHES"); b++ {
		md := pmetric.NewMetrics()
		for s := 0; s < rt.Param("SLOTS"); s++ {
			rm := md.ResourceMetrics().AppendEmpty()
			verifShapeResource(rm.Resource(), "res")
			sm := rm.ScopeMetrics().AppendEmpty()
			verifShapeScope(sm.Scope(), "scope")
			m := sm.Metrics().AppendEmpty()
			m.SetName(string([]byte{'m', byte('0' + b), byte('0' + s)}))
			dp := m.SetEmptyGauge().DataPoints().AppendEmpty()
			dp.SetTimestamp(pcommon.Timestamp(100 + 10*b + s))
			dp.SetIntValue(int64(s + 1))
		}
		verifRoundTripMetrics(p, c, md, "C03.rt")
	}
}
