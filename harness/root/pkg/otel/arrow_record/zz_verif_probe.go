package arrow_record

import (
	rt "github.com/open-telemetry/otel-arrow/zzverifrt"
)

func VerifHarness_probe() {
	rt.Assert(true, "probe")
}
