package arrow_record

import (
	"context"
	"errors"

	"github.com/apache/arrow-go/v18/arrow/ipc"
	"go.opentelemetry.io/otel/metric"
	"go.opentelemetry.io/otel/metric/embedded"
	"go.opentelemetry.io/otel/metric/noop"

	rt "github.com/open-telemetry/otel-arrow/zzverifrt"
)

// verifMeterProvider records what is published on the arrow_memory_inuse up-down counter.
type verifMeterProvider struct {
	noop.MeterProvider
	inuse *int64
}

type verifMeter struct {
	noop.Meter
	inuse *int64
}

type verifUpDown struct {
	embedded.Int64UpDownCounter
	total *int64
}

func (c verifUpDown) Add(_ context.Context, incr int64, _ ...metric.AddOption) { *c.total += incr }

func (p verifMeterProvider) Meter(string, ...metric.MeterOption) metric.Meter {
	return verifMeter{inuse: p.inuse}
}

func (m verifMeter) Int64UpDownCounter(name string, _ ...metric.Int64UpDownCounterOption) (metric.Int64UpDownCounter, error) {
	if name == "arrow_memory_inuse" {
		return verifUpDown{total: m.inuse}, nil
	}
	return noop.Int64UpDownCounter{}, nil
}

// VerifHarness_C14_consumer: a consumer with a symbolic memory limit decodes BATCHES batches whose IPC
// messages each cost a symbolic number of bytes to materialise (the ipc model asks the consumer's
// LimitedAllocator for that many bytes, as the real reader does for its buffers, and holds them until the
// reader advances or is released). Every call either decodes completely or returns an error recognisable as
// the memory-limit error through all wrapping layers; it never panics; the in-use figure published to the
// supplied MeterProvider equals the allocator's and never exceeds the limit.
func VerifHarness_C14_consumer() {
	limit := rt.Uint64("limit")
	rt.Assume(limit >= 1)
	rt.Assume(limit <= 70<<20)
	var published int64
	p := verifProducer()
	c := NewConsumer(WithMemoryLimit(limit), WithMeterProvider(verifMeterProvider{inuse: &published}))
	refused := false
	for b := 0; b < rt.Param("BATCHES"); b++ {
		cost := rt.Int("cost")
		rt.Assume(cost >= 0)
		rt.Assume(cost <= 80<<20)
		ipc.VerifCost = cost
		bar, err := p.BatchArrowRecordsFromTraces(verifFixedTraces(b, true))
		rt.Assert(err == nil, "C14.consumer.producer_ok")
		if err != nil {
			return
		}
		out, err := c.TracesFrom(bar) // a panic is reported by the engine
		rt.Observe("refused", err != nil)
		if err != nil {
			refused = true
			rt.Assert(errors.Is(err, ErrConsumerMemoryLimit), "C14.consumer.refusal_is_recognisable")
		} else if !refused {
			rt.Assert(len(out) == 1 && out[0].SpanCount() == 2, "C14.consumer.decoded_completely")
		}
		rt.Assert(c.allocator.Inuse() <= limit, "C14.consumer.inuse_within_limit")
		rt.Assert(uint64(published) == c.allocator.Inuse(), "C14.consumer.published_inuse_is_exact")
	}
}

// VerifHarness_C14_consumer_monotone (2-safety): the same stream through two consumers with limits
// limit <= limit2: raising the limit never turns a decodable batch into a refused one, nor changes the
// decoded telemetry.
func VerifHarness_C14_consumer_monotone() {
	limit := rt.Uint64("limit")
	limit2 := rt.Uint64("limit2")
	rt.Assume(limit >= 1)
	rt.Assume(limit <= limit2)
	rt.Assume(limit2 <= 70<<20)
	p := verifProducer()
	c := NewConsumer(WithMemoryLimit(limit))
	c2 := NewConsumer(WithMemoryLimit(limit2))
	for b := 0; b < rt.Param("BATCHES"); b++ {
		cost := rt.Int("cost")
		rt.Assume(cost >= 0)
		rt.Assume(cost <= 80<<20)
		ipc.VerifCost = cost
		bar, err := p.BatchArrowRecordsFromTraces(verifFixedTraces(b, true))
		rt.Assert(err == nil, "C14.monotone.producer_ok")
		if err != nil {
			return
		}
		bar2 := verifCopyBar(bar)
		out, err := c.TracesFrom(bar)
		if err != nil {
			return // refused under the smaller limit: nothing is claimed about the larger one from here on
		}
		out2, err2 := c2.TracesFrom(bar2)
		rt.Assert(err2 == nil, "C14.monotone.larger_limit_still_decodes")
		if err2 != nil {
			return
		}
		rt.Assert(len(out) == 1 && len(out2) == 1 && out2[0].SpanCount() == out[0].SpanCount() && out[0].SpanCount() == 2, "C14.monotone.larger_limit_same_telemetry")
		rt.Assert(c2.allocator.Inuse() <= limit2, "C14.monotone.inuse_within_limit")
	}
}
