package arrow_record

import (
	"go.opentelemetry.io/collector/pdata/pcommon"
	"go.opentelemetry.io/collector/pdata/ptrace"

	rt "github.com/open-telemetry/otel-arrow/zzverifrt"
)

// VerifHarness_C08_id_space: a batch with N spans that all carry related data, in two runs of N/2 spans; for
// each run the KIND of related data (an attribute, an event, a link) is a symbolic choice, so no single
// accumulator need exceed its own 16-bit group limit while the spans' own 16-bit id space is exhausted. C08: the
// producer returns a batch or an error - it never panics - and with more than 65,536 id-bearing spans it must
// be an error (the ids cannot be represented).
func VerifHarness_C08_id_space() {
	n := rt.Param("N")
	td := ptrace.NewTraces()
	ss := td.ResourceSpans().AppendEmpty().ScopeSpans().AppendEmpty().Spans()
	ss.EnsureCapacity(n)
	for half := 0; half < 2; half++ {
		kind := rt.Int("kind")
		rt.Assume(kind >= 0)
		rt.Assume(kind <= 2)
		k := 0 // concretise once per run (one fork), not once per span
		if kind == 1 {
			k = 1
		} else if kind == 2 {
			k = 2
		}
		for i := 0; i < n/2; i++ {
			s := ss.AppendEmpty()
			s.SetStartTimestamp(pcommon.Timestamp(half*n + i + 1))
			switch k {
			case 0:
				s.Attributes().PutInt("k", 1)
			case 1:
				s.Events().AppendEmpty().SetName("e")
			default:
				s.Links().AppendEmpty().TraceState().FromRaw("l")
			}
		}
	}
	p := NewProducer()
	bar, err := p.BatchArrowRecordsFromTraces(td)
	rt.Reach("C08.id_space.returned")
	if n > 65536 {
		rt.Assert(err != nil, "C08.id_space.unrepresentable_refused")
	}
	if err == nil {
		rt.Assert(bar != nil && len(bar.ArrowPayloads) > 0, "C08.id_space.batch_or_error")
	}
	_ = p.Close()
}
