package arrow_record

import (
	"go.opentelemetry.io/collector/pdata/pcommon"
	"go.opentelemetry.io/collector/pdata/ptrace"

	"github.com/apache/arrow-go/v18/arrow/array"
	"github.com/apache/arrow-go/v18/arrow/ipc"

	rt "github.com/open-telemetry/otel-arrow/zzverifrt"
)

func verifName4(i int) string {
	return string([]byte{'a' + byte(i%26), 'a' + byte(i/26%26), 'a' + byte(i/676%26), 'a' + byte(i/17576%26)})
}

// VerifHarness_C08_id_space: a batch of N spans that exhausts one of the protocol's 16-bit id spaces, the LAYOUT
// being a symbolic choice:
//   layout 0: all spans in one scope, every span carrying related data, in two runs of N/2 spans; for each run the
//             KIND of related data (an attribute, an event, a link) is a symbolic choice, so no single accumulator
//             need exceed its own 16-bit group limit while the spans' shared 16-bit id is exhausted;
//   layout 1: 65,537 or N distinct scopes (one span each) under one resource;
//   layout 2: 65,537 or N distinct resources (one span each).
// C08: the producer returns a batch or an error - it never panics - and with N > 65,536 it must be an error (the
// ids cannot be represented). C15: a producer that is closed after only failed encodes has released everything.
func VerifHarness_C08_id_space() {
	n := rt.Param("N")
	liveBefore, writersBefore := array.VerifLive, ipc.VerifOpenWriters
	td := ptrace.NewTraces()
	layout := rt.Int("layout")
	rt.Assume(layout >= 0)
	rt.Assume(layout <= 2)
	lay := 0 // concretise once (one fork), not once per span
	if layout == 1 {
		lay = 1
	} else if layout == 2 {
		lay = 2
	}
	if lay != 0 {
		// one item too many, or two (the first id that does not fit may be the last item or not)
		if rt.Bool("exactlyOneTooMany") {
			n = 65537
		}
	}
	switch lay {
	case 0:
		ss := td.ResourceSpans().AppendEmpty().ScopeSpans().AppendEmpty().Spans()
		ss.EnsureCapacity(n)
		for half := 0; half < 2; half++ {
			kind := rt.Int("kind")
			rt.Assume(kind >= 0)
			rt.Assume(kind <= 2)
			k := 0
			if kind == 1 {
				k = 1
			} else if kind == 2 {
				k = 2
			}
			for i := 0; i < n/2; i++ {
				s := ss.AppendEmpty()
				s.SetStartTimestamp(pcommon.Timestamp(half*n + i + 1))
				switch k {
				case 0:
					s.Attributes().PutInt("k", 1)
				case 1:
					s.Events().AppendEmpty().SetName("e")
				default:
					s.Links().AppendEmpty().TraceState().FromRaw("l")
				}
			}
		}
	case 1:
		sss := td.ResourceSpans().AppendEmpty().ScopeSpans()
		sss.EnsureCapacity(n)
		for i := 0; i < n; i++ {
			sc := sss.AppendEmpty()
			sc.Scope().SetName(verifName4(i))
			sc.Spans().AppendEmpty().SetStartTimestamp(pcommon.Timestamp(i + 1))
		}
	default:
		rss := td.ResourceSpans()
		rss.EnsureCapacity(n)
		for i := 0; i < n; i++ {
			rs := rss.AppendEmpty()
			rs.SetSchemaUrl(verifName4(i))
			rs.ScopeSpans().AppendEmpty().Spans().AppendEmpty().SetStartTimestamp(pcommon.Timestamp(i + 1))
		}
	}
	p := NewProducer()
	bar, err := p.BatchArrowRecordsFromTraces(td)
	rt.Reach("C08.id_space.returned")
	if n > 65536 {
		rt.Assert(err != nil, "C08.id_space.unrepresentable_refused")
	}
	if err == nil {
		rt.Assert(bar != nil && len(bar.ArrowPayloads) > 0, "C08.id_space.batch_or_error")
	}
	rt.Assert(p.Close() == nil, "C15.release_failed.close_ok")
	if err != nil {
		rt.Assert(array.VerifLive == liveBefore, "C15.release_failed.all_records_arrays_builders_released")
		rt.Assert(ipc.VerifOpenWriters == writersBefore, "C15.release_failed.all_ipc_writers_closed")
	}
}
