package arrow_record

import (
	"bytes"

	"go.opentelemetry.io/collector/pdata/pcommon"
	"go.opentelemetry.io/collector/pdata/pmetric"

	rt "github.com/open-telemetry/otel-arrow/zzverifrt"
)

func verifTS(tag string) pcommon.Timestamp {
	v := rt.Uint64(tag)
	rt.Assume(v <= 1<<63-1)
	return pcommon.Timestamp(v)
}

func verifU64s(tag string, max int) []uint64 {
	n := verifCount(tag+".n", max)
	out := make([]uint64, n)
	for i := range out {
		out[i] = rt.Uint64(tag + ".v")
	}
	return out
}

func verifF64s(tag string, max int) []float64 {
	n := verifCount(tag+".n", max)
	out := make([]float64, n)
	for i := range out {
		out[i] = rt.Float64(tag + ".v")
	}
	return out
}

func verifExemplar(ex pmetric.Exemplar, tag string) {
	ex.SetTimestamp(verifTS(tag + ".time"))
	if rt.Bool(tag + ".isInt") {
		ex.SetIntValue(rt.Int64(tag + ".int"))
	} else {
		ex.SetDoubleValue(rt.Float64(tag + ".double"))
	}
	var tid pcommon.TraceID
	tid[0] = rt.Uint8(tag + ".tid0")
	ex.SetTraceID(tid)
	var sid pcommon.SpanID
	sid[0] = rt.Uint8(tag + ".sid0")
	ex.SetSpanID(sid)
	verifAttrs(ex.FilteredAttributes(), tag+".attr", 1, 1|2)
}

// verifMetric fills m with a metric of the given kind (1 gauge, 2 sum, 3 histogram, 4 exp histogram,
// 5 summary, 0 empty) holding POINTS fully symbolic data points.
func verifMetric(m pmetric.Metric, kind int, points int, exemplars int, attrs int) {
	m.SetName(rt.String("m.name", 1))
	m.SetDescription(rt.String("m.desc", 1))
	m.SetUnit(rt.String("m.unit", 1))
	num := func(dps pmetric.NumberDataPointSlice) {
		for i := 0; i < points; i++ {
			dp := dps.AppendEmpty()
			dp.SetStartTimestamp(verifTS("dp.start"))
			dp.SetTimestamp(verifTS("dp.time"))
			dp.SetFlags(pmetric.DataPointFlags(rt.Uint32("dp.flags")))
			switch verifCount("dp.valueKind", 2) {
			case 1:
				dp.SetIntValue(rt.Int64("dp.int"))
			case 2:
				dp.SetDoubleValue(rt.Float64("dp.double"))
			}
			verifAttrs(dp.Attributes(), "dp.attr", attrs, 1|2)
			for e := 0; e < verifCount("dp.exemplars", exemplars); e++ {
				verifExemplar(dp.Exemplars().AppendEmpty(), "ex")
			}
		}
	}
	switch kind {
	case 1:
		num(m.SetEmptyGauge().DataPoints())
	case 2:
		s := m.SetEmptySum()
		s.SetAggregationTemporality(pmetric.AggregationTemporality(rt.Int32("sum.temporality")))
		s.SetIsMonotonic(rt.Bool("sum.monotonic"))
		num(s.DataPoints())
	case 3:
		h := m.SetEmptyHistogram()
		h.SetAggregationTemporality(pmetric.AggregationTemporality(rt.Int32("hist.temporality")))
		for i := 0; i < points; i++ {
			dp := h.DataPoints().AppendEmpty()
			dp.SetTimestamp(verifTS("hdp.time"))
			if rt.Param("PART")&1 != 0 {
				dp.SetStartTimestamp(verifTS("hdp.start"))
				dp.SetCount(rt.Uint64("hdp.count"))
				dp.SetFlags(pmetric.DataPointFlags(rt.Uint32("hdp.flags")))
				if rt.Bool("hdp.hasSum") {
					dp.SetSum(rt.Float64("hdp.sum"))
				}
				if rt.Bool("hdp.hasMin") {
					dp.SetMin(rt.Float64("hdp.min"))
				}
				if rt.Bool("hdp.hasMax") {
					dp.SetMax(rt.Float64("hdp.max"))
				}
			}
			if rt.Param("PART")&2 != 0 {
				dp.BucketCounts().FromRaw(verifU64s("hdp.buckets", 2))
				dp.ExplicitBounds().FromRaw(verifF64s("hdp.bounds", 1))
			}
			verifAttrs(dp.Attributes(), "hdp.attr", attrs, 1|2)
			for e := 0; e < verifCount("hdp.exemplars", exemplars); e++ {
				verifExemplar(dp.Exemplars().AppendEmpty(), "ex")
			}
		}
	case 4:
		h := m.SetEmptyExponentialHistogram()
		h.SetAggregationTemporality(pmetric.AggregationTemporality(rt.Int32("ehist.temporality")))
		for i := 0; i < points; i++ {
			dp := h.DataPoints().AppendEmpty()
			dp.SetTimestamp(verifTS("edp.time"))
			if rt.Param("PART")&1 != 0 {
				dp.SetStartTimestamp(verifTS("edp.start"))
				dp.SetCount(rt.Uint64("edp.count"))
				dp.SetScale(rt.Int32("edp.scale"))
				dp.SetZeroCount(rt.Uint64("edp.zero"))
				dp.SetFlags(pmetric.DataPointFlags(rt.Uint32("edp.flags")))
				if rt.Bool("edp.hasSum") {
					dp.SetSum(rt.Float64("edp.sum"))
				}
				if rt.Bool("edp.hasMin") {
					dp.SetMin(rt.Float64("edp.min"))
				}
				if rt.Bool("edp.hasMax") {
					dp.SetMax(rt.Float64("edp.max"))
				}
			}
			if rt.Param("PART")&2 != 0 {
				dp.Positive().SetOffset(rt.Int32("edp.pos.offset"))
				dp.Positive().BucketCounts().FromRaw(verifU64s("edp.pos.buckets", 2))
				dp.Negative().SetOffset(rt.Int32("edp.neg.offset"))
				dp.Negative().BucketCounts().FromRaw(verifU64s("edp.neg.buckets", 1))
			}
			verifAttrs(dp.Attributes(), "edp.attr", attrs, 1|2)
			for e := 0; e < verifCount("edp.exemplars", exemplars); e++ {
				verifExemplar(dp.Exemplars().AppendEmpty(), "ex")
			}
		}
	case 5:
		s := m.SetEmptySummary()
		for i := 0; i < points; i++ {
			dp := s.DataPoints().AppendEmpty()
			dp.SetStartTimestamp(verifTS("sdp.start"))
			dp.SetTimestamp(verifTS("sdp.time"))
			dp.SetCount(rt.Uint64("sdp.count"))
			dp.SetSum(rt.Float64("sdp.sum"))
			dp.SetFlags(pmetric.DataPointFlags(rt.Uint32("sdp.flags")))
			for q := 0; q < verifCount("sdp.quantiles", 1); q++ {
				qv := dp.QuantileValues().AppendEmpty()
				qv.SetQuantile(rt.Float64("q.quantile"))
				qv.SetValue(rt.Float64("q.value"))
			}
			verifAttrs(dp.Attributes(), "sdp.attr", attrs, 1|2)
		}
	}
}

// ---- oracle ----

func verifU64sEq(a, b []uint64) bool {
	if len(a) != len(b) {
		return false
	}
	eq := true
	for i := range a {
		eq = rt.And(eq, a[i] == b[i])
	}
	return eq
}

func verifF64sEq(a, b []float64) bool {
	if len(a) != len(b) {
		return false
	}
	eq := true
	for i := range a {
		eq = rt.And(eq, verifDoubleEq(a[i], b[i]))
	}
	return eq
}

func verifExemplarsEq(a, b pmetric.ExemplarSlice, p string) {
	rt.Assert(a.Len() == b.Len(), p+".exemplar_count")
	if a.Len() != b.Len() {
		return
	}
	for i := 0; i < a.Len(); i++ { // at most one exemplar per point in these harnesses
		x, y := a.At(i), b.At(i)
		xt, yt := x.TraceID(), y.TraceID()
		xs, ys := x.SpanID(), y.SpanID()
		val := x.ValueType() == y.ValueType()
		if x.ValueType() == y.ValueType() {
			switch x.ValueType() {
			case pmetric.ExemplarValueTypeInt:
				val = x.IntValue() == y.IntValue()
			case pmetric.ExemplarValueTypeDouble:
				val = verifDoubleEq(x.DoubleValue(), y.DoubleValue())
			}
		}
		rt.Assert(rt.And(rt.And(x.Timestamp() == y.Timestamp(), val), rt.And(rt.And(verifBytesEq(xt[:], yt[:]), verifBytesEq(xs[:], ys[:])),
			verifMapEquiv(x.FilteredAttributes(), y.FilteredAttributes()))), p+".exemplar")
	}
}

func verifNumberPointsEq(a, b pmetric.NumberDataPointSlice, p string) {
	rt.Assert(a.Len() == b.Len(), p+".point_count")
	if a.Len() != b.Len() {
		return
	}
	for i := 0; i < a.Len(); i++ {
		// the order of data points may change: with several points the harnesses give them distinct concrete
		// times and the decoded point is looked up by time
		x, y := a.At(i), b.At(i)
		if a.Len() > 1 {
			n := 0
			for j := 0; j < b.Len(); j++ {
				if b.At(j).Timestamp() == x.Timestamp() {
					y = b.At(j)
					n++
				}
			}
			rt.Assert(n == 1, p+".each_point_once")
			if n != 1 {
				continue
			}
		}
		rt.Assert(rt.And(x.StartTimestamp() == y.StartTimestamp(), rt.And(x.Timestamp() == y.Timestamp(), x.Flags() == y.Flags())), p+".point_times_flags")
		val := x.ValueType() == y.ValueType()
		if x.ValueType() == y.ValueType() {
			switch x.ValueType() {
			case pmetric.NumberDataPointValueTypeInt:
				val = x.IntValue() == y.IntValue()
			case pmetric.NumberDataPointValueTypeDouble:
				val = verifDoubleEq(x.DoubleValue(), y.DoubleValue())
			}
		}
		rt.Assert(val, p+".point_value_and_type")
		rt.Assert(verifMapEquiv(x.Attributes(), y.Attributes()), p+".point_attributes")
		verifExemplarsEq(x.Exemplars(), y.Exemplars(), p)
	}
}

func verifOptEq(ha bool, a float64, hb bool, b float64) bool {
	if ha != hb {
		return false
	}
	if !ha {
		return true
	}
	return verifDoubleEq(a, b)
}

// verifPickByTime: the order of data points may change. With one point the decoded point is the one at the same
// index; with several, the harnesses give points distinct concrete times and the decoded point is looked up by
// time (exactly one must exist).
func verifPickByTime(i, n int, t pcommon.Timestamp, m int, timeOf func(int) pcommon.Timestamp, p string) int {
	if n <= 1 {
		return i
	}
	found, cnt := -1, 0
	for k := 0; k < m; k++ {
		if timeOf(k) == t {
			found = k
			cnt++
		}
	}
	rt.Assert(cnt == 1, p+".each_point_once")
	if cnt != 1 {
		return -1
	}
	return found
}

func verifMetricEquiv(a, b pmetric.Metric, p string) {
	rt.Assert(rt.And(a.Name() == b.Name(), rt.And(a.Description() == b.Description(), a.Unit() == b.Unit())), p+".descriptor")
	rt.Assert(a.Type() == b.Type(), p+".metric_type")
	if a.Type() != b.Type() {
		return
	}
	switch a.Type() {
	case pmetric.MetricTypeGauge:
		verifNumberPointsEq(a.Gauge().DataPoints(), b.Gauge().DataPoints(), p)
	case pmetric.MetricTypeSum:
		rt.Assert(rt.And(a.Sum().AggregationTemporality() == b.Sum().AggregationTemporality(), a.Sum().IsMonotonic() == b.Sum().IsMonotonic()), p+".sum_temporality_monotonic")
		verifNumberPointsEq(a.Sum().DataPoints(), b.Sum().DataPoints(), p)
	case pmetric.MetricTypeHistogram:
		rt.Assert(a.Histogram().AggregationTemporality() == b.Histogram().AggregationTemporality(), p+".hist_temporality")
		x, y := a.Histogram().DataPoints(), b.Histogram().DataPoints()
		rt.Assert(x.Len() == y.Len(), p+".point_count")
		if x.Len() != y.Len() {
			return
		}
		for i := 0; i < x.Len(); i++ {
			u := x.At(i)
			j := verifPickByTime(i, x.Len(), u.Timestamp(), y.Len(), func(k int) pcommon.Timestamp { return y.At(k).Timestamp() }, p)
			if j < 0 {
				continue
			}
			v := y.At(j)
			rt.Assert(rt.And(rt.And(u.StartTimestamp() == v.StartTimestamp(), u.Timestamp() == v.Timestamp()), rt.And(u.Count() == v.Count(), u.Flags() == v.Flags())), p+".hist_scalars")
			rt.Assert(verifOptEq(u.HasSum(), u.Sum(), v.HasSum(), v.Sum()), p+".hist_sum_presence_value")
			rt.Assert(verifOptEq(u.HasMin(), u.Min(), v.HasMin(), v.Min()), p+".hist_min_presence_value")
			rt.Assert(verifOptEq(u.HasMax(), u.Max(), v.HasMax(), v.Max()), p+".hist_max_presence_value")
			rt.Assert(verifU64sEq(u.BucketCounts().AsRaw(), v.BucketCounts().AsRaw()), p+".hist_bucket_counts")
			rt.Assert(verifF64sEq(u.ExplicitBounds().AsRaw(), v.ExplicitBounds().AsRaw()), p+".hist_explicit_bounds")
			rt.Assert(verifMapEquiv(u.Attributes(), v.Attributes()), p+".point_attributes")
			verifExemplarsEq(u.Exemplars(), v.Exemplars(), p)
		}
	case pmetric.MetricTypeExponentialHistogram:
		rt.Assert(a.ExponentialHistogram().AggregationTemporality() == b.ExponentialHistogram().AggregationTemporality(), p+".ehist_temporality")
		x, y := a.ExponentialHistogram().DataPoints(), b.ExponentialHistogram().DataPoints()
		rt.Assert(x.Len() == y.Len(), p+".point_count")
		if x.Len() != y.Len() {
			return
		}
		for i := 0; i < x.Len(); i++ {
			u := x.At(i)
			j := verifPickByTime(i, x.Len(), u.Timestamp(), y.Len(), func(k int) pcommon.Timestamp { return y.At(k).Timestamp() }, p)
			if j < 0 {
				continue
			}
			v := y.At(j)
			rt.Assert(rt.And(rt.And(u.StartTimestamp() == v.StartTimestamp(), u.Timestamp() == v.Timestamp()),
				rt.And(rt.And(u.Count() == v.Count(), u.Flags() == v.Flags()), rt.And(u.Scale() == v.Scale(), u.ZeroCount() == v.ZeroCount()))), p+".ehist_scalars")
			rt.Assert(verifOptEq(u.HasSum(), u.Sum(), v.HasSum(), v.Sum()), p+".ehist_sum_presence_value")
			rt.Assert(verifOptEq(u.HasMin(), u.Min(), v.HasMin(), v.Min()), p+".ehist_min_presence_value")
			rt.Assert(verifOptEq(u.HasMax(), u.Max(), v.HasMax(), v.Max()), p+".ehist_max_presence_value")
			rt.Assert(rt.And(u.Positive().Offset() == v.Positive().Offset(), verifU64sEq(u.Positive().BucketCounts().AsRaw(), v.Positive().BucketCounts().AsRaw())), p+".ehist_positive")
			rt.Assert(rt.And(u.Negative().Offset() == v.Negative().Offset(), verifU64sEq(u.Negative().BucketCounts().AsRaw(), v.Negative().BucketCounts().AsRaw())), p+".ehist_negative")
			rt.Assert(verifMapEquiv(u.Attributes(), v.Attributes()), p+".point_attributes")
			verifExemplarsEq(u.Exemplars(), v.Exemplars(), p)
		}
	case pmetric.MetricTypeSummary:
		x, y := a.Summary().DataPoints(), b.Summary().DataPoints()
		rt.Assert(x.Len() == y.Len(), p+".point_count")
		if x.Len() != y.Len() {
			return
		}
		for i := 0; i < x.Len(); i++ {
			u := x.At(i)
			j := verifPickByTime(i, x.Len(), u.Timestamp(), y.Len(), func(k int) pcommon.Timestamp { return y.At(k).Timestamp() }, p)
			if j < 0 {
				continue
			}
			v := y.At(j)
			rt.Assert(rt.And(rt.And(u.StartTimestamp() == v.StartTimestamp(), u.Timestamp() == v.Timestamp()),
				rt.And(rt.And(u.Count() == v.Count(), u.Flags() == v.Flags()), verifDoubleEq(u.Sum(), v.Sum()))), p+".summary_scalars")
			rt.Assert(u.QuantileValues().Len() == v.QuantileValues().Len(), p+".quantile_count")
			if u.QuantileValues().Len() == v.QuantileValues().Len() {
				for q := 0; q < u.QuantileValues().Len(); q++ {
					rt.Assert(rt.And(verifDoubleEq(u.QuantileValues().At(q).Quantile(), v.QuantileValues().At(q).Quantile()),
						verifDoubleEq(u.QuantileValues().At(q).Value(), v.QuantileValues().At(q).Value())), p+".quantile")
				}
			}
			rt.Assert(verifMapEquiv(u.Attributes(), v.Attributes()), p+".point_attributes")
		}
	}
}

type verifFlatMetric struct {
	rm pmetric.ResourceMetrics
	sm pmetric.ScopeMetrics
	m  pmetric.Metric
}

func verifFlattenMetrics(md pmetric.Metrics) []verifFlatMetric {
	var out []verifFlatMetric
	for i := 0; i < md.ResourceMetrics().Len(); i++ {
		rm := md.ResourceMetrics().At(i)
		for j := 0; j < rm.ScopeMetrics().Len(); j++ {
			sm := rm.ScopeMetrics().At(j)
			for k := 0; k < sm.Metrics().Len(); k++ {
				out = append(out, verifFlatMetric{rm, sm, sm.Metrics().At(k)})
			}
		}
	}
	return out
}

// verifMetricContainersEquiv: the decoded metric sits under a resource and a scope with the original content.
func verifMetricContainersEquiv(o, d verifFlatMetric, p string) {
	rt.Assert(rt.And(verifMapEquiv(o.rm.Resource().Attributes(), d.rm.Resource().Attributes()),
		rt.And(o.rm.Resource().DroppedAttributesCount() == d.rm.Resource().DroppedAttributesCount(), o.rm.SchemaUrl() == d.rm.SchemaUrl())), p+".resource")
	rt.Assert(rt.And(rt.And(o.sm.Scope().Name() == d.sm.Scope().Name(), o.sm.Scope().Version() == d.sm.Scope().Version()),
		rt.And(rt.And(verifMapEquiv(o.sm.Scope().Attributes(), d.sm.Scope().Attributes()), o.sm.Scope().DroppedAttributesCount() == d.sm.Scope().DroppedAttributesCount()),
			o.sm.SchemaUrl() == d.sm.SchemaUrl())), p+".scope")
}

func verifRoundTripMetrics(p *Producer, c *Consumer, md pmetric.Metrics, tag string) {
	orig := pmetric.NewMetrics()
	md.CopyTo(orig)
	rt.WatchBegin("input", md)
	h0 := rt.WatchChangedTag("input")
	bar, err := p.BatchArrowRecordsFromMetrics(md)
	// the engine decides the frame condition on its store instructions; the compiled harness (replay) compares
	// the serialisation of the input with that of the copy taken before the call
	same := rt.NativeCheck(func() bool {
		x, e1 := (&pmetric.ProtoMarshaler{}).MarshalMetrics(md)
		y, e2 := (&pmetric.ProtoMarshaler{}).MarshalMetrics(orig)
		return e1 == nil && e2 == nil && bytes.Equal(x, y)
	})
	rt.Assert(rt.WatchChangedTag("input") == h0 && same, "C15.frame_input.metrics_untouched")
	rt.WatchEndTag("input")
	rt.Assert(err == nil, tag+".encode_ok")
	if err != nil {
		return
	}
	verifDecodeStep(func() {
		out, err := c.MetricsFrom(bar)
		rt.Assert(err == nil, tag+".decode_ok")
		if err != nil {
			return
		}
		if orig.MetricCount() == 0 {
			return
		}
		rt.Assert(len(out) == 1, tag+".one_result")
		if len(out) != 1 {
			return
		}
		// these harnesses use a single resource/scope and metrics with distinct concrete first name bytes are
		// not needed: one metric per batch
		rt.Assert(out[0].MetricCount() == orig.MetricCount(), tag+".metric_count")
		if out[0].MetricCount() == 1 && orig.MetricCount() == 1 {
			of, df := verifFlattenMetrics(orig), verifFlattenMetrics(out[0])
			verifMetricContainersEquiv(of[0], df[0], tag)
			verifMetricEquiv(of[0].m, df[0].m, tag)
		} else if out[0].MetricCount() == orig.MetricCount() {
			// several metrics: the harness gives them distinct concrete names; the order of metrics may change
			of, df := verifFlattenMetrics(orig), verifFlattenMetrics(out[0])
			for _, om := range of {
				n := 0
				for _, dm := range df {
					if dm.m.Name() == om.m.Name() {
						n++
						verifMetricContainersEquiv(om, dm, tag)
						verifMetricEquiv(om.m, dm.m, tag)
					}
				}
				rt.Assert(n == 1, tag+".each_metric_once")
			}
		}
	})
}

// VerifHarness_C03_rt: one metric of symbolic type per batch (every type incl. empty) with POINTS fully
// symbolic data points (Has-flags, int-vs-double, zero counts, bucket lists of length 0..2, quantiles,
// exemplars with and without attributes), BATCHES batches on one stream.
func VerifHarness_C03_rt() {
	p, c := verifProducer(), verifConsumer()
	for b := 0; b < rt.Param("BATCHES"); b++ {
		md := pmetric.NewMetrics()
		sm := md.ResourceMetrics().AppendEmpty().ScopeMetrics().AppendEmpty()
		kind := rt.Int("kind")
		rt.Assume(kind >= 0)
		rt.Assume(kind <= 5)
		if k := rt.Param("KIND"); k >= 0 {
			rt.Assume(kind == k)
		}
		verifMetric(sm.Metrics().AppendEmpty(), kind, rt.Param("POINTS"), rt.Param("EXEMPLARS"), rt.Param("ATTRS"))
		verifRoundTripMetrics(p, c, md, "C03.rt")
	}
}
