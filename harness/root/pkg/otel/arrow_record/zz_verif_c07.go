package arrow_record

import (
	"go.opentelemetry.io/collector/pdata/pcommon"
	"go.opentelemetry.io/collector/pdata/plog"
	"go.opentelemetry.io/collector/pdata/pmetric"
	"go.opentelemetry.io/collector/pdata/ptrace"

	colarspb "github.com/open-telemetry/otel-arrow/api/experimental/arrow/v1"
	rt "github.com/open-telemetry/otel-arrow/zzverifrt"
)

// verifFixedTraces: a concrete batch; rich selects whether spans carry attributes/events/links
// (so related payloads exist) or nothing at all (the batch is just [SPANS]).
func verifFixedTraces(seed int, rich bool) ptrace.Traces {
	td := ptrace.NewTraces()
	rs := td.ResourceSpans().AppendEmpty()
	if rich {
		rs.Resource().Attributes().PutStr("service", "svc")
	}
	ss := rs.ScopeSpans().AppendEmpty()
	for i := 0; i < 2; i++ {
		sp := ss.Spans().AppendEmpty()
		sp.SetSpanID(pcommon.SpanID{byte(seed), byte(i + 1), 1, 1, 1, 1, 1, 1})
		sp.SetTraceID(pcommon.TraceID{byte(i + 1)})
		sp.SetName("span")
		sp.SetStartTimestamp(pcommon.Timestamp(1000 + seed))
		sp.SetEndTimestamp(pcommon.Timestamp(2000 + seed))
		if rich {
			sp.Attributes().PutInt("k", int64(seed+i))
			ev := sp.Events().AppendEmpty()
			ev.SetName("ev")
			ev.Attributes().PutStr("ek", "ev")
			lk := sp.Links().AppendEmpty()
			lk.SetTraceID(pcommon.TraceID{9})
			lk.Attributes().PutStr("lk", "lv")
		}
	}
	return td
}

func verifFixedLogs(seed int, rich bool) plog.Logs {
	ld := plog.NewLogs()
	rl := ld.ResourceLogs().AppendEmpty()
	if rich {
		rl.Resource().Attributes().PutStr("service", "svc")
	}
	sl := rl.ScopeLogs().AppendEmpty()
	for i := 0; i < 2; i++ {
		lr := sl.LogRecords().AppendEmpty()
		lr.SetTimestamp(pcommon.Timestamp(1000 + seed + i))
		lr.SetSpanID(pcommon.SpanID{byte(seed + 1), byte(i + 1)})
		lr.Body().SetStr("body")
		if rich {
			lr.Attributes().PutInt("k", int64(seed+i))
		}
	}
	return ld
}

func verifFixedMetrics(seed int, rich bool) pmetric.Metrics {
	md := pmetric.NewMetrics()
	rm := md.ResourceMetrics().AppendEmpty()
	if rich {
		rm.Resource().Attributes().PutStr("service", "svc")
	}
	sm := rm.ScopeMetrics().AppendEmpty()
	m := sm.Metrics().AppendEmpty()
	m.SetName("g")
	dp := m.SetEmptyGauge().DataPoints().AppendEmpty()
	dp.SetIntValue(int64(seed + 1))
	dp.SetTimestamp(pcommon.Timestamp(1000 + seed))
	if rich {
		dp.Attributes().PutStr("dk", "dv")
		h := sm.Metrics().AppendEmpty()
		h.SetName("h")
		hp := h.SetEmptyHistogram().DataPoints().AppendEmpty()
		hp.SetCount(3)
		hp.BucketCounts().FromRaw([]uint64{1, 2})
		hp.ExplicitBounds().FromRaw([]float64{5})
	}
	return md
}

var verifRelabels = []colarspb.ArrowPayloadType{
	colarspb.ArrowPayloadType_UNKNOWN, colarspb.ArrowPayloadType_RESOURCE_ATTRS, colarspb.ArrowPayloadType_SCOPE_ATTRS,
	colarspb.ArrowPayloadType_UNIVARIATE_METRICS, colarspb.ArrowPayloadType_NUMBER_DATA_POINTS, colarspb.ArrowPayloadType_NUMBER_DP_ATTRS,
	colarspb.ArrowPayloadType_HISTOGRAM_DATA_POINTS, colarspb.ArrowPayloadType_MULTIVARIATE_METRICS,
	colarspb.ArrowPayloadType_LOGS, colarspb.ArrowPayloadType_LOG_ATTRS,
	colarspb.ArrowPayloadType_SPANS, colarspb.ArrowPayloadType_SPAN_ATTRS, colarspb.ArrowPayloadType_SPAN_EVENTS, colarspb.ArrowPayloadType_SPAN_LINKS,
	colarspb.ArrowPayloadType_SPAN_EVENT_ATTRS, colarspb.ArrowPayloadType(99),
}

// verifDamage applies one payload-level fault chosen by decision variables to bar and reports whether an
// intact main-record payload (type `main`, original schema id and bytes) is still present.
func verifDamage(bar *colarspb.BatchArrowRecords, main colarspb.ArrowPayloadType, staleID string) {
	n := len(bar.ArrowPayloads)
	i := rt.Choose(n)
	clone := func(p *colarspb.ArrowPayload) *colarspb.ArrowPayload {
		rec := make([]byte, len(p.Record))
		copy(rec, p.Record)
		return &colarspb.ArrowPayload{SchemaId: p.SchemaId, Type: p.Type, Record: rec}
	}
	switch rt.Choose(7) {
	case 0: // relabel payload i
		bar.ArrowPayloads[i].Type = verifRelabels[rt.Choose(len(verifRelabels))]
	case 1: // drop payload i
		bar.ArrowPayloads = append(bar.ArrowPayloads[:i:i], bar.ArrowPayloads[i+1:]...)
	case 2: // duplicate payload i, the copy optionally relabelled, inserted at position j
		c := clone(bar.ArrowPayloads[i])
		if rt.Choose(2) == 1 {
			c.Type = verifRelabels[rt.Choose(len(verifRelabels))]
		}
		j := rt.Choose(n + 1)
		out := append([]*colarspb.ArrowPayload{}, bar.ArrowPayloads[:j]...)
		out = append(out, c)
		bar.ArrowPayloads = append(out, bar.ArrowPayloads[j:]...)
	case 3: // swap payloads i and j
		j := rt.Choose(n)
		bar.ArrowPayloads[i], bar.ArrowPayloads[j] = bar.ArrowPayloads[j], bar.ArrowPayloads[i]
	case 4: // empty payload i
		bar.ArrowPayloads[i].Record = []byte{}
	case 5: // unknown schema id on payload i
		bar.ArrowPayloads[i].SchemaId = "unknown-id"
	case 6: // stale schema id on payload i
		bar.ArrowPayloads[i].SchemaId = staleID
	}
}

func verifIntactMain(orig, now *colarspb.BatchArrowRecords, main colarspb.ArrowPayloadType) bool {
	var m *colarspb.ArrowPayload
	for _, p := range orig.ArrowPayloads {
		if p.Type == main {
			m = p
		}
	}
	if m == nil {
		return false
	}
	n := 0
	for _, p := range now.ArrowPayloads {
		if p.Type == main && p.SchemaId == m.SchemaId && string(p.Record) == string(m.Record) {
			n++
		}
	}
	return n == 1 // exactly one intact main record is in the batch
}

func verifCopyBar(b *colarspb.BatchArrowRecords) *colarspb.BatchArrowRecords {
	out := &colarspb.BatchArrowRecords{BatchId: b.BatchId}
	for _, p := range b.ArrowPayloads {
		rec := make([]byte, len(p.Record))
		copy(rec, p.Record)
		out.ArrowPayloads = append(out.ArrowPayloads, &colarspb.ArrowPayload{SchemaId: p.SchemaId, Type: p.Type, Record: rec})
	}
	return out
}

// VerifHarness_C07_faults: a valid prefix of PREFIX batches (so the consumer holds reader state, and a
// schema change between batch 0 and 1 leaves a stale schema id behind), then one batch damaged by a
// payload-level fault (relabel / drop / duplicate(+relabel) / reorder / empty / unknown id / stale id, all
// positions — decision variables), for the signal SIGNAL (0 traces, 1 logs, 2 metrics): the consumer must
// not panic, and must not return success while discarding the intact main record of the batch.
func VerifHarness_C07_faults() {
	p, c := verifProducer(), verifConsumer()
	signal := rt.Param("SIGNAL")
	rich := rt.Choose(2) == 1
	mains := []colarspb.ArrowPayloadType{colarspb.ArrowPayloadType_SPANS, colarspb.ArrowPayloadType_LOGS, colarspb.ArrowPayloadType_UNIVARIATE_METRICS}
	produce := func(seed int, rich bool) *colarspb.BatchArrowRecords {
		var bar *colarspb.BatchArrowRecords
		var err error
		switch signal {
		case 0:
			bar, err = p.BatchArrowRecordsFromTraces(verifFixedTraces(seed, rich))
		case 1:
			bar, err = p.BatchArrowRecordsFromLogs(verifFixedLogs(seed, rich))
		default:
			bar, err = p.BatchArrowRecordsFromMetrics(verifFixedMetrics(seed, rich))
		}
		rt.Assert(err == nil, "C07.faults.producer_ok")
		return bar
	}
	consume := func(bar *colarspb.BatchArrowRecords) (int, error) {
		switch signal {
		case 0:
			out, err := c.TracesFrom(bar)
			n := 0
			for _, t := range out {
				n += t.SpanCount()
			}
			return n, err
		case 1:
			out, err := c.LogsFrom(bar)
			n := 0
			for _, t := range out {
				n += t.LogRecordCount()
			}
			return n, err
		}
		out, err := c.MetricsFrom(bar)
		n := 0
		for _, t := range out {
			n += t.MetricCount()
		}
		return n, err
	}
	stale := "none"
	for b := 0; b < rt.Param("PREFIX"); b++ {
		// the first prefix batch is poor (no related payloads), later ones as chosen: a schema change
		// between them retires the first main schema id
		bar := produce(b, b > 0 && rich)
		if b == 0 && len(bar.ArrowPayloads) > 0 {
			stale = bar.ArrowPayloads[0].SchemaId
		}
		n, err := consume(bar)
		rt.Assert(err == nil && n > 0, "C07.faults.prefix_decodes")
	}
	bar := produce(7, rich)
	if bar == nil {
		return
	}
	orig := verifCopyBar(bar)
	for k := 0; k < rt.Param("FAULTS"); k++ { // any combination of FAULTS payload-level faults
		if len(bar.ArrowPayloads) == 0 {
			break
		}
		verifDamage(bar, mains[signal], stale)
	}
	n, err := consume(bar) // a panic here is reported by the engine as a violation
	want := 2
	if signal == 2 {
		want = 1
		if rich {
			want = 2
		}
	}
	if err == nil && verifIntactMain(orig, bar, mains[signal]) {
		rt.Assert(n == want, "C07.faults.no_silent_drop_of_main_record")
	}
	rt.Reach("C07.faults.survived")
	if rt.Param("FOLLOW") == 1 {
		// the next, unaltered batch of the stream: it may be rejected (the stream can be broken after a
		// damaged batch) but decoding it must not crash the consumer
		next := produce(8, rich)
		if next != nil {
			n2, err2 := consume(next)
			if err2 == nil {
				// an unaltered batch that is accepted must deliver its main record
				rt.Assert(n2 == want, "C07.faults.followup_no_silent_drop")
			}
		}
		rt.Reach("C07.faults.followup_survived")
	}
}
