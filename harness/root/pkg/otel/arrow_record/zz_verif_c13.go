package arrow_record

import (
	"math"

	"github.com/apache/arrow-go/v18/arrow"
	"github.com/apache/arrow-go/v18/arrow/array"
	"github.com/apache/arrow-go/v18/arrow/ipc"

	cfg "github.com/open-telemetry/otel-arrow/pkg/config"
	rt "github.com/open-telemetry/otel-arrow/zzverifrt"
)

// verifDictColumns calls f on every dictionary-encoded column nested anywhere in col.
func verifDictColumns(col arrow.Array, f func(*array.Dictionary)) {
	switch c := col.(type) {
	case *array.Dictionary:
		f(c)
	case *array.Struct:
		for i := 0; i < c.NumField(); i++ {
			verifDictColumns(c.Field(i), f)
		}
	case *array.List:
		verifDictColumns(c.ListValues(), f)
	}
}

func verifIndexCapacity(t arrow.DataType) uint64 {
	switch t.ID() {
	case arrow.UINT8:
		return math.MaxUint8
	case arrow.UINT16:
		return math.MaxUint16
	case arrow.UINT32:
		return math.MaxUint32
	case arrow.UINT64:
		return math.MaxUint64
	}
	return 0 // an index type the property does not know: nothing fits
}

// VerifHarness_C13_stream: the REAL producer, configured with a symbolic dictionary-limit option and a symbolic
// reset threshold, encodes BATCHES batches while every dictionary column reports SYMBOLIC sizes: in batch b
// every dictionary column holds rows_b rows with cardBatch_b distinct values (1 <= cardBatch_b <= rows_b <=
// 2^31); a builder that already produced an array reports a dictionary size c with
// max(prev, cardBatch_b) <= c <= prev + cardBatch_b (its memo table only grows, by at most the batch's
// distinct values); a fresh builder (first batch, or created by a schema update) reports cardBatch_b.
// C13: every dictionary column of every EMITTED record reports a size within the configured limit and within
// what its index type can address; with dictionaries disabled no emitted column is dictionary-encoded.
func VerifHarness_C13_stream() {
	sel := rt.Int("limitOption")
	rt.Assume(sel >= 0)
	rt.Assume(sel <= 5)
	var limit uint64 = math.MaxUint16 // default
	opts := []cfg.Option{cfg.WithNoZstd()}
	switch sel {
	case 1:
		opts, limit = append(opts, cfg.WithNoDictionary()), 0
	case 2:
		opts, limit = append(opts, cfg.WithUint8LimitDictIndex()), math.MaxUint8
	case 3:
		opts, limit = append(opts, cfg.WithUint16LimitDictIndex()), math.MaxUint16
	case 4:
		opts, limit = append(opts, cfg.WithUint32LimitDictIndex()), math.MaxUint32
	case 5:
		opts, limit = append(opts, cfg.WithUint64LimitDictIndex()), math.MaxUint64
	}
	if rt.Param("THR") == 1 && rt.Bool("customThreshold") {
		thr := rt.Float64("threshold")
		rt.Assume(thr >= 0)
		rt.Assume(thr <= 1)
		opts = append(opts, cfg.WithDictResetThreshold(thr))
	}
	p := NewProducerWithOptions(opts...)
	defer func() { array.VerifDictHook = nil }()
	for b := 0; b < rt.Param("BATCHES"); b++ {
		rows := rt.Int("rows")
		rt.Assume(rows >= 1)
		rt.Assume(rows <= 1<<31)
		cardBatch := rt.Int("cardBatch")
		rt.Assume(cardBatch >= 1)
		rt.Assume(cardBatch <= rows)
		array.VerifDictHook = func(fresh bool, prev int) (int, int) {
			if fresh {
				return rows, cardBatch
			}
			c := rt.Int("card")
			rt.Assume(c >= prev)
			rt.Assume(c >= cardBatch)
			rt.Assume(c <= prev+cardBatch)
			return rows, c
		}
		var err error
		var payloads [][]byte
		switch rt.Param("SIGNAL") {
		case 0:
			r, e := p.BatchArrowRecordsFromTraces(verifFixedTraces(b, true))
			err = e
			if e == nil {
				for _, pl := range r.ArrowPayloads {
					payloads = append(payloads, pl.Record)
				}
			}
		case 1:
			r, e := p.BatchArrowRecordsFromLogs(verifFixedLogs(b, true))
			err = e
			if e == nil {
				for _, pl := range r.ArrowPayloads {
					payloads = append(payloads, pl.Record)
				}
			}
		default:
			r, e := p.BatchArrowRecordsFromMetrics(verifFixedMetrics(b, true))
			err = e
			if e == nil {
				for _, pl := range r.ArrowPayloads {
					payloads = append(payloads, pl.Record)
				}
			}
		}
		rt.Assert(err == nil, "C13.stream.produce_ok")
		if err != nil {
			return
		}
		for _, raw := range payloads {
			tok, ok := ipc.VerifTokenOf(raw)
			rt.Assert(ok, "C13.stream.payload_is_one_ipc_message")
			if !ok {
				continue
			}
			for i := 0; i < int(tok.Rec.NumCols()); i++ {
				verifDictColumns(tok.Rec.Column(i), func(d *array.Dictionary) {
					rt.Assert(limit != 0, "C13.stream.no_dictionary_when_disabled")
					hooked, _, card := d.VerifReported()
					if !hooked {
						return // a column without rows
					}
					rt.Assert(uint64(card) <= limit, "C13.stream.dictionary_within_configured_limit")
					rt.Assert(uint64(card) <= verifIndexCapacity(d.DataType().(*arrow.DictionaryType).IndexType), "C13.stream.dictionary_within_index_capacity")
				})
			}
		}
	}
}
