package arrow

import (
	rt "github.com/open-telemetry/otel-arrow/zzverifrt"
)

// verifAlloc is the environment stub for the wrapped allocator: contents are never the subject.
type verifAlloc struct{}

func (verifAlloc) Allocate(size int) []byte             { return nil }
func (verifAlloc) Reallocate(size int, b []byte) []byte { return nil }
func (verifAlloc) Free(b []byte)                        {}

func verifAllocOp(l *LimitedAllocator, op int, size int, b []byte) (panicked bool, le LimitError, other bool) {
	defer func() {
		if r := recover(); r != nil {
			panicked = true
			if e, ok := r.(LimitError); ok {
				le = e
			} else {
				other = true
			}
		}
	}()
	switch op {
	case 0:
		l.Allocate(size)
	case 1:
		l.Reallocate(size, b)
	default:
		l.Free(b)
	}
	return
}

// verifWant is the reference accounting: inuse + size - len(b) in mathematical integers
// (representable without wrap under the harness assumptions).
func verifWant(op int, inuse uint64, size int, lb uint64) uint64 {
	switch op {
	case 0:
		return inuse + uint64(size)
	case 1:
		return inuse - lb + uint64(size)
	}
	return inuse - lb
}

// VerifHarness_C14_alloc_step: one Allocate/Reallocate/Free from an arbitrary state inuse <= limit.
func VerifHarness_C14_alloc_step() {
	inuse := rt.Uint64("inuse")
	limit := rt.Uint64("limit")
	rt.Assume(limit <= 1<<62)
	rt.Assume(inuse <= limit)
	op := rt.Int("op")
	rt.Assume(op >= 0)
	rt.Assume(op <= 2)
	size := rt.Int("size")
	rt.Assume(size >= 0)
	b := rt.OpaqueBytes("b")
	lb := uint64(len(b))
	rt.Assume(lb <= inuse)
	rt.Prefer(lb <= 64)
	l := &LimitedAllocator{Allocator: verifAlloc{}, inuse: inuse, limit: limit}
	panicked, le, other := verifAllocOp(l, op, size, b)
	want := verifWant(op, inuse, size, lb)
	rt.Observe("panicked", panicked)
	rt.Observe("inuse_after", l.inuse)
	rt.Assert(!other, "C14.alloc.only_limit_error")
	if panicked {
		rt.Assert(l.inuse == inuse, "C14.alloc.refused_unchanged")
		rt.Assert(want > limit, "C14.alloc.refusal_justified")
		rt.Assert(rt.And(le.Limit == limit, le.Inuse == inuse), "C14.alloc.error_fields")
	} else {
		rt.Assert(l.inuse == want, "C14.alloc.exact_accounting")
		rt.Assert(l.inuse <= limit, "C14.alloc.within_limit")
	}
}

// VerifHarness_C14_monotone: the same request in the same state under limit <= limit2.
func VerifHarness_C14_monotone() {
	inuse := rt.Uint64("inuse")
	limit := rt.Uint64("limit")
	limit2 := rt.Uint64("limit2")
	rt.Assume(limit2 <= 1<<62)
	rt.Assume(limit <= limit2)
	rt.Assume(inuse <= limit)
	op := rt.Int("op")
	rt.Assume(op >= 0)
	rt.Assume(op <= 2)
	size := rt.Int("size")
	rt.Assume(size >= 0)
	b := rt.OpaqueBytes("b")
	lb := uint64(len(b))
	rt.Assume(lb <= inuse)
	rt.Prefer(lb <= 64)
	l1 := &LimitedAllocator{Allocator: verifAlloc{}, inuse: inuse, limit: limit}
	l2 := &LimitedAllocator{Allocator: verifAlloc{}, inuse: inuse, limit: limit2}
	p1, _, _ := verifAllocOp(l1, op, size, b)
	p2, _, _ := verifAllocOp(l2, op, size, b)
	rt.Observe("p1", p1)
	rt.Observe("p2", p2)
	if !p1 {
		rt.Assert(!p2, "C14.monotone.admitted_stays_admitted")
		rt.Assert(l1.inuse == l2.inuse, "C14.monotone.same_accounting")
	}
}
