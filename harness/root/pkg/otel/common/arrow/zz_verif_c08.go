package arrow

import (
	"go.opentelemetry.io/collector/pdata/pcommon"

	rt "github.com/open-telemetry/otel-arrow/zzverifrt"
)

// VerifHarness_C08_attrs_width: one more attribute-bearing parent from an ARBITRARY accumulator state
// (the group counter symbolic over its full width): the call returns (possibly an error), never panics,
// and never wraps the counter (an accepted parent gets an id strictly above the previous ones).
func VerifHarness_C08_attrs_width() {
	m := pcommon.NewMap()
	m.PutInt("k", 1)
	switch rt.Choose(3) {
	case 0:
		acc := NewAttributes16Accumulator(SortAttrs16ByTypeKeyValueParentId())
		before := rt.Uint16("count16")
		acc.attrsMapCount = before
		id, err := acc.Append(m)
		rt.Observe("err", err != nil)
		if err == nil {
			rt.Assert(rt.And(id == int64(before), acc.attrsMapCount > before), "C08.attrs_width.no_wrap16")
		} else {
			rt.Assert(acc.attrsMapCount == before, "C08.attrs_width.refused_unchanged16")
		}
	case 1:
		acc := NewAttributes16Accumulator(SortAttrs16ByTypeKeyValueParentId())
		before := rt.Uint16("count16")
		acc.attrsMapCount = before
		err := acc.AppendWithID(rt.Uint16("pid"), m)
		rt.Observe("err", err != nil)
		if err == nil {
			rt.Assert(acc.attrsMapCount > before, "C08.attrs_width.no_wrap16_with_id")
		} else {
			rt.Assert(acc.attrsMapCount == before, "C08.attrs_width.refused_unchanged16_with_id")
		}
	default:
		acc := NewAttributes32Accumulator(SortAttrs32ByTypeKeyValueParentId())
		before := rt.Uint32("count32")
		acc.attrsMapCount = before
		err := acc.Append(rt.Uint32("pid"), m)
		rt.Observe("err", err != nil)
		if err == nil {
			rt.Assert(acc.attrsMapCount > before, "C08.attrs_width.no_wrap32")
		} else {
			rt.Assert(acc.attrsMapCount == before, "C08.attrs_width.refused_unchanged32")
		}
	}
}
