package arrow

import (
	rt "github.com/open-telemetry/otel-arrow/zzverifrt"
)

// VerifHarness_C12_schema_prefix: the schema-id KEY of a related record is PayloadType.SchemaPrefix() + ":" + id.
// For the key to denote one payload type, two different payload types (a symbolic pair out of all those the
// adapter defines) must have different prefixes and different protobuf payload types, and no prefix may contain
// the ':' delimiter (otherwise prefix p1 + id "x:y" could equal prefix "p1:x" + id "y").
func VerifHarness_C12_schema_prefix() {
	all := []*PayloadType{
		PayloadTypes.Metrics, PayloadTypes.Logs, PayloadTypes.Spans, PayloadTypes.ResourceAttrs, PayloadTypes.ScopeAttrs,
		PayloadTypes.NumberDataPoints, PayloadTypes.NumberDataPointAttrs, PayloadTypes.NumberDataPointExemplars,
		PayloadTypes.NumberDataPointExemplarAttrs, PayloadTypes.Summary, PayloadTypes.SummaryAttrs,
		PayloadTypes.Histogram, PayloadTypes.HistogramAttrs, PayloadTypes.HistogramExemplars,
		PayloadTypes.HistogramExemplarAttrs, PayloadTypes.ExpHistogram, PayloadTypes.ExpHistogramAttrs,
		PayloadTypes.ExpHistogramExemplars, PayloadTypes.ExpHistogramExemplarAttrs, PayloadTypes.LogRecordAttrs,
		PayloadTypes.SpanAttrs, PayloadTypes.Event, PayloadTypes.EventAttrs, PayloadTypes.Link, PayloadTypes.LinkAttrs,
	}
	i, j := rt.Int("i"), rt.Int("j")
	rt.Assume(i >= 0)
	rt.Assume(j > i)
	rt.Assume(j < len(all))
	var a, b *PayloadType
	for k := range all {
		if k == i {
			a = all[k]
		}
		if k == j {
			b = all[k]
		}
	}
	rt.Assert(a != nil && b != nil, "C12.schema_prefix.defined")
	rt.Assert(a.SchemaPrefix() != b.SchemaPrefix(), "C12.schema_prefix.distinct_prefixes")
	rt.Assert(a.PayloadType() != b.PayloadType(), "C12.schema_prefix.distinct_payload_types")
	for _, p := range []*PayloadType{a, b} {
		for k := 0; k < len(p.SchemaPrefix()); k++ {
			rt.Assert(p.SchemaPrefix()[k] != ':', "C12.schema_prefix.no_delimiter_in_prefix")
		}
		rt.Assert(len(p.SchemaPrefix()) > 0, "C12.schema_prefix.non_empty")
	}
}
