package otlp

import (
	"go.opentelemetry.io/collector/pdata/pcommon"

	rt "github.com/open-telemetry/otel-arrow/zzverifrt"
)

// verifAttr is one symbolic attribute; absent attributes are skipped.
type verifAttr struct {
	present bool
	key     string
	val     pcommon.Value
}

func verifAnyAttrs(tag string, n int) []verifAttr {
	out := make([]verifAttr, n)
	for i := 0; i < n; i++ {
		out[i].present = rt.Bool(tag + ".present")
		if out[i].present {
			out[i].key = rt.String(tag+".key", 1)
			out[i].val = verifAnyValue(tag+".val", 1|2|8|16|128, 1)
			if out[i].val.Type() == pcommon.ValueTypeInt {
				// bound: small integers (decimal rendering forks on the digit count)
				rt.Assume(out[i].val.Int() >= -9)
				rt.Assume(out[i].val.Int() <= 99)
			}
		}
	}
	return out
}

func verifFill(m pcommon.Map, attrs []verifAttr) {
	for _, a := range attrs {
		if a.present {
			a.val.CopyTo(m.PutEmpty(a.key))
		}
	}
}

// verifValEq: same type and same payload (scalar types used here).
func verifValEq(a, b pcommon.Value) bool {
	if a.Type() != b.Type() {
		return false
	}
	switch a.Type() {
	case pcommon.ValueTypeStr:
		return a.Str() == b.Str()
	case pcommon.ValueTypeInt:
		return a.Int() == b.Int()
	case pcommon.ValueTypeBool:
		return a.Bool() == b.Bool()
	case pcommon.ValueTypeBytes:
		x, y := a.Bytes().AsRaw(), b.Bytes().AsRaw()
		if len(x) != len(y) {
			return false
		}
		eq := true
		for i := range x {
			eq = rt.And(eq, x[i] == y[i])
		}
		return eq
	}
	return true
}

// verifMapEquiv: the two maps carry the same attributes once the documented normalisation
// (attributes with an empty key or an unset value are dropped) is applied.
func verifMapEquiv(a, b pcommon.Map) bool {
	sub := func(x, y pcommon.Map) bool {
		ok := true
		x.Range(func(k string, v pcommon.Value) bool {
			if k == "" || v.Type() == pcommon.ValueTypeEmpty {
				return true
			}
			w, found := y.Get(k)
			if !found {
				ok = false
				return false
			}
			ok = rt.And(ok, verifValEq(v, w))
			return true
		})
		return ok
	}
	return rt.And(sub(a, b), sub(b, a))
}

// VerifHarness_C01_identity: two arbitrary resources (NATTR attributes each, any scalar type, dropped
// count, schema URL): equal ResourceID strings => equivalent resources (else the optimizer merges two
// different resources into one and spans change resource). Likewise for ScopeID.
func VerifHarness_C01_identity() {
	n := rt.Param("NATTR")
	r1, r2 := pcommon.NewResource(), pcommon.NewResource()
	verifFill(r1.Attributes(), verifAnyAttrs("r1", n))
	verifFill(r2.Attributes(), verifAnyAttrs("r2", n))
	d1, d2 := rt.Uint32("r1.dropped"), rt.Uint32("r2.dropped")
	rt.Assume(d1 <= 9)
	rt.Assume(d2 <= 9)
	r1.SetDroppedAttributesCount(d1)
	r2.SetDroppedAttributesCount(d2)
	u1, u2 := rt.String("r1.url", 1), rt.String("r2.url", 1)
	same := ResourceID(r1, u1) == ResourceID(r2, u2)
	equiv := rt.And(rt.And(d1 == d2, u1 == u2), verifMapEquiv(r1.Attributes(), r2.Attributes()))
	rt.Observe("sameID", same)
	rt.Assert(rt.Implies(same, equiv), "C01.identity.resource_id_injective")
}

func VerifHarness_C01_identity_scope() {
	n := rt.Param("NATTR")
	s1, s2 := pcommon.NewInstrumentationScope(), pcommon.NewInstrumentationScope()
	verifFill(s1.Attributes(), verifAnyAttrs("s1", n))
	verifFill(s2.Attributes(), verifAnyAttrs("s2", n))
	s1.SetName(rt.String("s1.name", 1))
	s2.SetName(rt.String("s2.name", 1))
	s1.SetVersion(rt.String("s1.version", 1))
	s2.SetVersion(rt.String("s2.version", 1))
	d1, d2 := rt.Uint32("s1.dropped"), rt.Uint32("s2.dropped")
	rt.Assume(d1 <= 9)
	rt.Assume(d2 <= 9)
	s1.SetDroppedAttributesCount(d1)
	s2.SetDroppedAttributesCount(d2)
	u1, u2 := rt.String("s1.url", 1), rt.String("s2.url", 1)
	same := ScopeID(s1, u1) == ScopeID(s2, u2)
	equiv := rt.And(rt.And(rt.And(d1 == d2, u1 == u2), rt.And(s1.Name() == s2.Name(), s1.Version() == s2.Version())),
		verifMapEquiv(s1.Attributes(), s2.Attributes()))
	rt.Observe("sameID", same)
	rt.Assert(rt.Implies(same, equiv), "C01.identity.scope_id_injective")
}
