package otlp

import (
	"go.opentelemetry.io/collector/pdata/pcommon"

	cfg "github.com/open-telemetry/otel-arrow/pkg/config"
	carrow "github.com/open-telemetry/otel-arrow/pkg/otel/common/arrow"
	rt "github.com/open-telemetry/otel-arrow/zzverifrt"
)

// VerifHarness_attrs_sym16: ROWS attribute rows (parent id, key, value), all symbolic and in ANY order,
// are fed row by row through the producer-side parent-id encoder chosen by OrderAttrs16By (through the real
// option plumbing) and the consumer's AttrsParentIDDecoder exactly as AttributesStoreFrom builds it; the
// decoder must return the original parent id of every row. With PIN_DEFAULT=1 the order is pinned to the
// default (C01/C02); otherwise it is symbolic (C04.order_cfg).
func VerifHarness_attrs_sym16() {
	order := cfg.OrderAttrs16By(rt.Int8("order"))
	rt.Assume(order >= 0)
	rt.Assume(order <= 3)
	if rt.Param("PIN_DEFAULT") == 1 {
		rt.Assume(order == cfg.OrderAttrs16ByTypeKeyValueParentId)
	}
	rt.Known("KF-B.attrs16", order != cfg.OrderAttrs16ByTypeKeyValueParentId)
	enc := carrow.Attrs16FindOrderByFunc(order)
	dec := NewAttrsParentIDDecoder[uint16]()
	rows := rt.Param("ROWS")
	for i := 0; i < rows; i++ {
		pid := rt.Uint16("pid")
		key := rt.String("key", 1)
		rt.Assume(key != "") // attributes with an empty key never reach the encoder
		v := verifAnyValue("v", 1|2|4|8|16|32|64, 1)
		w := pcommon.NewValueEmpty() // what the decoder rebuilds from the columns
		v.CopyTo(w)
		got := dec.Decode(enc.Encode(pid, key, &v), key, &w)
		rt.Observe("decoded", got)
		rt.Assert(got == pid, "attrs16.parent_id")
	}
}

// VerifHarness_attrs_sym32: the same for the 32-bit attribute records (span event / link / data point attributes).
func VerifHarness_attrs_sym32() {
	order := cfg.OrderAttrs32By(rt.Int8("order"))
	rt.Assume(order >= 0)
	rt.Assume(order <= 4)
	if rt.Param("PIN_DEFAULT") == 1 {
		rt.Assume(order == cfg.OrderAttrs32ByTypeKeyValueParentId)
	}
	rt.Known("KF-B.attrs32", rt.And(order != cfg.OrderAttrs32ByTypeKeyValueParentId, order != cfg.OrderAttrs32ByKeyValueParentId))
	enc := carrow.Attrs32FindOrderByFunc(order)
	dec := NewAttrsParentIDDecoder[uint32]()
	rows := rt.Param("ROWS")
	for i := 0; i < rows; i++ {
		pid := rt.Uint32("pid")
		key := rt.String("key", 1)
		rt.Assume(key != "")
		v := verifAnyValue("v", 1|2|4|8|16|32|64, 1)
		w := pcommon.NewValueEmpty()
		v.CopyTo(w)
		got := dec.Decode(enc.Encode(pid, key, &v), key, &w)
		rt.Observe("decoded", got)
		rt.Assert(got == pid, "attrs32.parent_id")
	}
}
