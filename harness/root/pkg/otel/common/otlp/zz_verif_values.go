package otlp

import (
	"go.opentelemetry.io/collector/pdata/pcommon"

	rt "github.com/open-telemetry/otel-arrow/zzverifrt"
)

// verifAnyValue returns a pcommon.Value whose type tag is a symbolic choice among the types
// enabled by mask bits (1=Str 2=Int 4=Double 8=Bool 16=Bytes 32=empty Slice 64=empty Map 128=Empty)
// and whose payload is symbolic (strings/bytes of at most strLen bytes).
func verifAnyValue(tag string, mask int, strLen int) pcommon.Value {
	t := rt.Int(tag + ".type")
	rt.Assume(t >= 0)
	rt.Assume(t <= 7)
	switch t {
	case 0:
		rt.Assume(mask&1 != 0)
		return pcommon.NewValueStr(rt.String(tag+".str", strLen))
	case 1:
		rt.Assume(mask&2 != 0)
		return pcommon.NewValueInt(rt.Int64(tag + ".int"))
	case 2:
		rt.Assume(mask&4 != 0)
		return pcommon.NewValueDouble(rt.Float64(tag + ".double"))
	case 3:
		rt.Assume(mask&8 != 0)
		return pcommon.NewValueBool(rt.Bool(tag + ".bool"))
	case 4:
		rt.Assume(mask&16 != 0)
		v := pcommon.NewValueBytes()
		v.Bytes().FromRaw(rt.Bytes(tag+".bytes", strLen))
		return v
	case 5:
		rt.Assume(mask&32 != 0)
		return pcommon.NewValueSlice()
	case 6:
		rt.Assume(mask&64 != 0)
		return pcommon.NewValueMap()
	}
	rt.Assume(mask&128 != 0)
	return pcommon.NewValueEmpty()
}
