package transform

import (
	"math"

	"github.com/apache/arrow-go/v18/arrow"

	cfg "github.com/open-telemetry/otel-arrow/pkg/otel/common/schema/config"
	events "github.com/open-telemetry/otel-arrow/pkg/otel/common/schema/events"
	"github.com/open-telemetry/otel-arrow/pkg/otel/common/schema/update"
	"github.com/open-telemetry/otel-arrow/pkg/otel/stats"
	rt "github.com/open-telemetry/otel-arrow/zzverifrt"
)

var verifLimits = []uint64{0, math.MaxUint8, math.MaxUint16, math.MaxUint32, math.MaxUint64}

// verifAnyDict builds a DictionaryField for an arbitrary public configuration
// (limit and per-field minimum each one of {0, 2^8-1, 2^16-1, 2^32-1, 2^64-1}, min <= max,
// reset threshold any double >= 0) in an arbitrary valid state.
func verifAnyDict() (*DictionaryField, *cfg.Dictionary, *update.SchemaUpdateRequest) {
	maxSel := rt.Int("maxSel")
	rt.Assume(maxSel >= 0)
	rt.Assume(maxSel <= 4)
	minSel := rt.Int("minSel")
	rt.Assume(minSel >= 0)
	rt.Assume(minSel <= maxSel)
	thr := rt.Float64("thr")
	rt.Assume(thr >= 0)
	config := &cfg.Dictionary{MinCard: verifLimits[minSel], MaxCard: verifLimits[maxSel], ResetThreshold: thr}
	sur := update.NewSchemaUpdateRequest()
	evts := &events.Events{DictionariesWithOverflow: map[string]bool{}, DictionariesIndexTypeChanged: map[string]string{}}
	df := NewDictionaryField("p", "0", config, sur, evts)
	if df.indexTypes != nil {
		if rt.Bool("overflowed") {
			df.indexTypes = nil
			df.indexMaxCard = nil
			df.currentIndex = 0
		} else {
			ci := rt.Int("currentIndex")
			rt.Assume(ci >= 0)
			rt.Assume(ci < len(df.indexTypes))
			df.currentIndex = ci
		}
	}
	df.resetPending = rt.Bool("resetPending")
	// the cardinality remembered from the previous batch is state too (any value: after a
	// dictionary reset the next batch's cardinality is smaller than the remembered one)
	df.cardinality = rt.Uint64("prevCard")
	df.cumulativeTotal = rt.Uint64("cumTotal")
	rt.Assume(df.cumulativeTotal <= 1<<62)
	df.prevCumulativeTotal = rt.Uint64("prevCumTotal")
	rt.Assume(df.prevCumulativeTotal <= df.cumulativeTotal)
	return df, config, sur
}

// VerifHarness_C04_dict_step: one AddTotal;SetCardinality step from an arbitrary valid state.
func VerifHarness_C04_dict_step() {
	df, config, sur := verifAnyDict()
	total := rt.Int("total")
	rt.Assume(total >= 0)
	rt.Assume(total <= 1<<31)
	card := rt.Uint64("card")
	// a dictionary cannot hold more entries than values were appended to its column
	rt.Assume(card <= df.cumulativeTotal+uint64(total))
	preEnabled := df.indexTypes != nil
	var preMax uint64
	if preEnabled {
		preMax = df.indexMaxCard[df.currentIndex]
	}
	st := &stats.RecordBuilderStats{}
	df.AddTotal(total)
	df.SetCardinality(card, st)

	requested := sur.Count() > 0
	rt.Observe("requested", requested)
	rt.Observe("enabled_after", df.indexTypes != nil)
	rt.Observe("index_after", df.currentIndex)
	valid := df.indexTypes == nil || (df.currentIndex >= 0 && df.currentIndex < len(df.indexTypes))
	rt.Assert(valid, "C04.dict_step.valid_state")
	if !valid {
		return
	}
	if preEnabled {
		rt.Assert(requested == (card > preMax), "C04.dict_step.update_iff_exceeds")
	} else {
		rt.Assert(!requested, "C04.dict_step.disabled_is_stable")
		rt.Assert(df.indexTypes == nil, "C04.dict_step.disabled_stays_disabled")
	}
	if config.MaxCard == 0 {
		rt.Assert(df.indexTypes == nil, "C13.bound.no_dictionary_when_disabled")
	}
	// C13.bound: when no update is requested the record is kept; its dictionary must fit
	// the index type in the schema it was built with and the configured limit.
	if !requested && df.indexTypes != nil {
		capNow := df.indexMaxCard[df.currentIndex]
		rt.Assert(card <= capNow, "C13.bound.card_fits_index")
		rt.Assert(capNow <= config.MaxCard, "C13.bound.index_within_limit")
	}
	// the schema field derived from the state uses exactly the current index type
	in := &arrow.Field{Name: "f", Type: arrow.BinaryTypes.String}
	out := df.Transform(in)
	if df.indexTypes != nil {
		dt, ok := out.Type.(*arrow.DictionaryType)
		rt.Assert(ok, "C04.dict_step.transform_is_dictionary")
		if ok {
			rt.Assert(dt.IndexType == df.indexTypes[df.currentIndex], "C04.dict_step.transform_index_type")
			rt.Assert(dt.ValueType == in.Type, "C04.dict_step.transform_value_type")
		}
	} else {
		rt.Assert(out.Type == in.Type, "C04.dict_step.transform_plain")
	}
}

// VerifHarness_C04_retry_converges: the producer's rebuild protocol for one batch.
// Attempt 0 appends `total` values to the current builder (dictionary cardinality card0);
// every schema update replaces the record builder, so later attempts see a fresh dictionary
// whose cardinality is that of the batch alone (cardBatch <= total). The producer panics
// when more than 5 consecutive attempts request a schema update.
func VerifHarness_C04_retry_converges() {
	df, _, sur := verifAnyDict()
	total := rt.Int("total")
	rt.Assume(total >= 0)
	rt.Assume(total <= 1<<31)
	cardBatch := rt.Uint64("cardBatch")
	rt.Assume(cardBatch <= uint64(total))
	card0 := rt.Uint64("card0")
	rt.Assume(card0 >= cardBatch)
	rt.Assume(card0 <= df.cumulativeTotal+uint64(total))
	st := &stats.RecordBuilderStats{}
	attempts := 0
	card := card0
	for {
		df.AddTotal(total)
		df.SetCardinality(card, st)
		if sur.Count() == 0 {
			break
		}
		attempts++
		if attempts > 5 {
			break
		}
		// UpdateSchema: counters reverted, new record builder => fresh dictionaries
		df.RevertCounters()
		sur.Reset()
		card = cardBatch
	}
	rt.Observe("attempts", attempts)
	rt.Assert(attempts <= 5, "C04.retry_converges.within_5")
}
