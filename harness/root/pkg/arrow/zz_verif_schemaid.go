package arrow

import (
	"github.com/apache/arrow-go/v18/arrow"

	rt "github.com/open-telemetry/otel-arrow/zzverifrt"
)

// C12 "a schema id always denotes ... one Arrow schema": the producer keys its IPC sub-streams by SchemaToID. Two
// schemas that differ (in a field's presence, type, dictionary index width, nesting) but map to one id would be
// written to one IPC stream. The harness builds TWO schemas from symbolic shape choices over the type family the
// adaptive schemas of this repository range over and asserts
//     SchemaToID(a) == SchemaToID(b)  <=>  a and b have the same fields up to order (at every nesting level),
// the right-hand side being decided by an independent structural comparison (verifSameType) that never looks at
// the id strings.

var verifPrims = []arrow.DataType{
	arrow.FixedWidthTypes.Boolean,
	arrow.PrimitiveTypes.Int8, arrow.PrimitiveTypes.Int16, arrow.PrimitiveTypes.Int32, arrow.PrimitiveTypes.Int64,
	arrow.PrimitiveTypes.Uint8, arrow.PrimitiveTypes.Uint16, arrow.PrimitiveTypes.Uint32, arrow.PrimitiveTypes.Uint64,
	arrow.PrimitiveTypes.Float32, arrow.PrimitiveTypes.Float64,
	arrow.BinaryTypes.String, arrow.BinaryTypes.Binary,
	arrow.FixedWidthTypes.Timestamp_ns, arrow.FixedWidthTypes.Duration_ns,
	&arrow.FixedSizeBinaryType{ByteWidth: 8}, &arrow.FixedSizeBinaryType{ByteWidth: 16},
}

// a smaller pool for nested positions
var verifInner = []arrow.DataType{
	arrow.PrimitiveTypes.Int32, arrow.PrimitiveTypes.Uint8, arrow.BinaryTypes.String,
	&arrow.FixedSizeBinaryType{ByteWidth: 8}, &arrow.FixedSizeBinaryType{ByteWidth: 16},
}

var verifTiny = []arrow.DataType{arrow.PrimitiveTypes.Int32, arrow.PrimitiveTypes.Uint8, arrow.BinaryTypes.String}

var verifIndex = []arrow.DataType{arrow.PrimitiveTypes.Uint8, arrow.PrimitiveTypes.Uint16, arrow.PrimitiveTypes.Uint32}
var verifDictVals = []arrow.DataType{arrow.BinaryTypes.String, arrow.BinaryTypes.Binary, arrow.PrimitiveTypes.Int64}

func verifPick(tag string, pool []arrow.DataType) arrow.DataType {
	k := rt.Int(tag)
	rt.Assume(k >= 0)
	rt.Assume(k < len(pool))
	for i := range pool {
		if k == i {
			return pool[i]
		}
	}
	return pool[0]
}

func verifName(tag string) string {
	if rt.Bool(tag) {
		return "b"
	}
	return "a"
}

// verifInnerType: a nested type (depth 1): inner primitive, dictionary, or list of an inner primitive.
func verifInnerType() arrow.DataType {
	k := rt.Int("innerShape")
	rt.Assume(k >= 0)
	rt.Assume(k <= 2)
	switch k {
	case 1:
		return &arrow.DictionaryType{IndexType: verifPick("idx", verifIndex), ValueType: verifPick("dval", verifDictVals)}
	case 2:
		return arrow.ListOf(verifPick("elem", verifInner))
	}
	return verifPick("inner", verifInner)
}

// verifType: a top-level column type.
func verifType() arrow.DataType {
	k := rt.Int("shape")
	rt.Assume(k >= 0)
	rt.Assume(k <= rt.Param("SHAPES"))
	switch k {
	case 1: // dictionary
		return &arrow.DictionaryType{IndexType: verifPick("idx", verifIndex), ValueType: verifPick("dval", verifDictVals)}
	case 2: // list of a nested type
		return arrow.ListOf(verifInnerType())
	case 3: // struct with one field
		return arrow.StructOf(arrow.Field{Name: verifName("fname"), Type: verifInnerType()})
	case 4: // struct with two fields, in either order
		f1 := arrow.Field{Name: "a", Type: verifPick("fa", verifTiny)}
		f2 := arrow.Field{Name: "b", Type: verifPick("fb", verifTiny)}
		if rt.Bool("swapped") {
			return arrow.StructOf(f2, f1)
		}
		return arrow.StructOf(f1, f2)
	case 5: // map
		return arrow.MapOf(verifPick("mk", verifDictVals), verifPick("mv", verifTiny))
	case 6: // sparse union with one field
		return arrow.SparseUnionOf([]arrow.Field{{Name: verifName("uname"), Type: verifPick("ut", verifInner)}}, []arrow.UnionTypeCode{0})
	case 7: // dense union with one field
		return arrow.DenseUnionOf([]arrow.Field{{Name: verifName("uname"), Type: verifPick("ut", verifInner)}}, []arrow.UnionTypeCode{0})
	}
	return verifPick("prim", verifPrims)
}

func verifSameFields(x, y []arrow.Field) bool {
	if len(x) != len(y) {
		return false
	}
	used := make([]bool, len(y))
	for _, f := range x {
		found := false
		for j, g := range y {
			if !used[j] && f.Name == g.Name && verifSameType(f.Type, g.Type) {
				used[j], found = true, true
				break
			}
		}
		if !found {
			return false
		}
	}
	return true
}

// verifSameType: structural equality up to field order, independent of the id strings.
func verifSameType(x, y arrow.DataType) bool {
	if x.ID() != y.ID() {
		return false
	}
	switch a := x.(type) {
	case *arrow.FixedSizeBinaryType:
		return a.ByteWidth == y.(*arrow.FixedSizeBinaryType).ByteWidth
	case *arrow.DictionaryType:
		b := y.(*arrow.DictionaryType)
		return verifSameType(a.IndexType, b.IndexType) && verifSameType(a.ValueType, b.ValueType)
	case *arrow.ListType:
		return verifSameType(a.Elem(), y.(*arrow.ListType).Elem())
	case *arrow.MapType:
		b := y.(*arrow.MapType)
		return verifSameType(a.KeyType(), b.KeyType()) && verifSameType(a.ItemType(), b.ItemType())
	case *arrow.StructType:
		return verifSameFields(a.Fields(), y.(*arrow.StructType).Fields())
	case *arrow.SparseUnionType:
		return verifSameFields(a.Fields(), y.(*arrow.SparseUnionType).Fields())
	case *arrow.DenseUnionType:
		return verifSameFields(a.Fields(), y.(*arrow.DenseUnionType).Fields())
	}
	return true
}

func verifSchema() *arrow.Schema {
	n := rt.Int("fields")
	rt.Assume(n >= 1)
	rt.Assume(n <= rt.Param("FIELDS"))
	if n == 1 {
		return arrow.NewSchema([]arrow.Field{{Name: verifName("name"), Type: verifType()}}, nil)
	}
	// two fields: the second is a plain column so that the product stays small; either order
	f1 := arrow.Field{Name: "a", Type: verifType()}
	f2 := arrow.Field{Name: "b", Type: verifPick("second", verifTiny)}
	if rt.Bool("swappedTop") {
		return arrow.NewSchema([]arrow.Field{f2, f1}, nil)
	}
	return arrow.NewSchema([]arrow.Field{f1, f2}, nil)
}

func VerifHarness_C12_schema_id() {
	s1, s2 := verifSchema(), verifSchema()
	same := verifSameFields(s1.Fields(), s2.Fields())
	id1, id2 := SchemaToID(s1), SchemaToID(s2)
	rt.Reach("C12.schema_id.compared")
	if same {
		rt.Assert(id1 == id2, "C12.schema_id.same_schema_same_id")
	} else {
		rt.Assert(id1 != id2, "C12.schema_id.different_schemas_different_ids")
	}
}
