package concurrentbatchprocessor

import (
	"context"
	"errors"
	"sync"
	"time"

	rt "github.com/open-telemetry/otel-arrow/collector/processor/concurrentbatchprocessor/zzverifrt"
)

// VerifHarness_C05_system: CALLERS concurrent callers, each one request of 1..ITEMS spans, against one
// shard with symbolic (send_batch_size, send_batch_max_size, early_return), every interleaving at
// synchronisation points within the preemption bound, then Shutdown. Oracle: every accepted span
// is exported exactly once (C05), each caller gets the true outcome of its own items (C06),
// no export is empty or above the maximum (C09), and everything has finished when Shutdown returns (C11).
func VerifHarness_C05_system() {
	callers := rt.Param("CALLERS")
	items := rt.Param("ITEMS")
	size := rt.Int("size")
	rt.Assume(size >= 0)
	rt.Assume(size <= rt.Param("MAXSIZE"))
	max := rt.Int("max")
	rt.Assume(max >= 0)
	rt.Assume(max <= rt.Param("MAXSIZE"))
	early := rt.Bool("early")
	var timeout time.Duration
	if rt.Bool("timeout") {
		timeout = 200 * time.Millisecond
	}
	next := &verifNext{}
	for k := 0; k < 4; k++ {
		next.fail = append(next.fail, rt.Bool("exportFails"))
	}
	tracer := &verifTracer{}
	bp := verifNewProcessor(next, tracer, size, max, timeout, early, nil, 0, 0)
	if bp == nil {
		return // configuration rejected by Validate
	}
	rt.Reach("C05.system.config_valid")
	if err := bp.Start(context.Background(), nil); err != nil {
		rt.Assert(false, "C05.system.start")
	}
	results := make([]error, callers)
	counts := make([]int, callers)
	var wg sync.WaitGroup
	for c := 0; c < callers; c++ {
		n := rt.Int("n")
		rt.Assume(n >= 1)
		rt.Assume(n <= items)
		counts[c] = n
		wg.Add(1)
		go func(c, n int) {
			defer wg.Done()
			results[c] = bp.ConsumeTraces(context.Background(), verifTraces(int64(100*(c+1)), n))
		}(c, n)
	}
	wg.Wait()
	if err := bp.Shutdown(context.Background()); err != nil {
		rt.Assert(false, "C05.system.shutdown")
	}
	// ---- oracle ----
	seen := map[int64]int{}
	for _, e := range next.exports {
		rt.Assert(len(e.ids) > 0, "C09.system.no_empty_batch")
		if max > 0 {
			rt.Assert(len(e.ids) <= max, "C09.system.max_size")
		}
		for _, id := range e.ids {
			seen[id]++
		}
	}
	total := 0
	for c := 0; c < callers; c++ {
		anyFailed := false
		for i := 0; i < counts[c]; i++ {
			id := int64(100*(c+1) + i)
			rt.Assert(seen[id] == 1, "C05.system.exactly_once")
			total++
			for _, e := range next.exports {
				for _, x := range e.ids {
					if x == id && e.failed {
						anyFailed = true
					}
				}
			}
		}
		if early {
			rt.Assert(results[c] == nil, "C06.system.early_return_nil")
		} else {
			rt.Assert((results[c] == nil) == !anyFailed, "C06.system.true_outcome")
			if results[c] != nil {
				rt.Assert(errors.Is(results[c], errVerifExport), "C06.system.error_wraps_export_failure")
			}
		}
	}
	rt.Assert(len(seen) == total, "C05.system.nothing_invented")
	rt.Assert(next.inflight == 0, "C11.system.exports_returned_at_shutdown")
	rt.Assert(verifLeaked() == 0, "C11.system.no_goroutine_left")
}

// verifLeaked: goroutines still alive besides the harness itself (exact under the engine;
// natively the test runner's own goroutines make the count meaningless, so 0).
func verifLeaked() int {
	if rt.Symbolic() {
		rt.Quiesce() // let goroutines that already signalled completion run to their end
		return rt.NumTasks() - 1
	}
	return 0
}

// VerifHarness_C11_concurrency: CALLERS callers x 1 item, send_batch_size 1 (one export per request),
// symbolic max_concurrency in {0,1,2}, symbolic export failures, Shutdown racing with nothing left to
// accept: never more than max_concurrency exports in flight; everything returns; no deadlock.
func VerifHarness_C11_concurrency() {
	callers := rt.Param("CALLERS")
	maxConc := rt.Int("maxConc")
	rt.Assume(maxConc >= 0)
	rt.Assume(maxConc <= 2)
	early := rt.Bool("early")
	next := &verifNext{}
	for k := 0; k < callers; k++ {
		next.fail = append(next.fail, rt.Bool("exportFails"))
	}
	bp := verifNewProcessor(next, &verifTracer{}, 1, 0, 200*time.Millisecond, early, nil, 0, maxConc)
	if bp == nil {
		return
	}
	_ = bp.Start(context.Background(), nil)
	var wg sync.WaitGroup
	for c := 0; c < callers; c++ {
		wg.Add(1)
		go func(c int) {
			defer wg.Done()
			_ = bp.ConsumeTraces(context.Background(), verifTraces(int64(100*(c+1)), 1))
		}(c)
	}
	wg.Wait()
	_ = bp.Shutdown(context.Background())
	if maxConc > 0 {
		rt.Assert(next.maxSeen <= maxConc, "C11.concurrency.bounded")
	}
	rt.Assert(len(next.exports) == callers, "C11.concurrency.all_exported_by_shutdown")
	rt.Assert(next.inflight == 0, "C11.concurrency.exports_returned_at_shutdown")
	rt.Assert(verifLeaked() == 0, "C11.concurrency.no_goroutine_left")
}

// VerifHarness_C05_shutdown_race: Shutdown is called while requests are still in flight: a slow export
// holds the only max_concurrency slot, the shard waits for it, and the remaining callers are either
// already accepted (buffered in the shard's input channel, capacity runtime.NumCPU() = NUMCPU) or parked
// on that full channel. Then Shutdown runs concurrently with the release of the slow export. Every request
// whose Consume returns nil was accepted and must be exported exactly once.
func VerifHarness_C05_shutdown_race() {
	callers := rt.Param("CALLERS")
	early := rt.Bool("early")
	next := &verifNext{gate: make(chan struct{})}
	bp := verifNewProcessor(next, &verifTracer{}, 1, 0, 0, early, nil, 0, 1)
	if bp == nil {
		return
	}
	_ = bp.Start(context.Background(), nil)
	results := make([]error, callers)
	var wg sync.WaitGroup
	for c := 0; c < callers; c++ {
		wg.Add(1)
		go func(c int) {
			defer wg.Done()
			results[c] = bp.ConsumeTraces(context.Background(), verifTraces(int64(100*(c+1)), 1))
		}(c)
	}
	rt.Quiesce() // everyone is now blocked: first export at the gate, shard on the slot, callers queued or parked
	var sd sync.WaitGroup
	sd.Add(1)
	go func() { defer sd.Done(); _ = bp.Shutdown(context.Background()) }()
	close(next.gate)
	sd.Wait()
	wg.Wait()
	seen := map[int64]int{}
	for _, e := range next.exports {
		for _, id := range e.ids {
			seen[id]++
		}
	}
	for c := 0; c < callers; c++ {
		id := int64(100 * (c + 1))
		if results[c] == nil {
			rt.Assert(seen[id] == 1, "C05.shutdown_race.accepted_exported_once")
		} else {
			rt.Assert(seen[id] <= 1, "C05.shutdown_race.refused_at_most_once")
		}
	}
	rt.Assert(next.inflight == 0, "C11.shutdown_race.exports_returned")
}

// VerifHarness_C05_system_sig: the whole-component scenario of VerifHarness_C05_system for the LOGS (SIGNAL=1)
// and METRICS (SIGNAL=2) batch types: the shard code is shared, but add / itemCount / splitBatch and the export
// closure are per signal (metrics count data points, not metrics). Same oracle: exactly-once, true outcome,
// size limits, everything finished at Shutdown.
func VerifHarness_C05_system_sig() {
	signal := rt.Param("SIGNAL")
	callers := rt.Param("CALLERS")
	items := rt.Param("ITEMS")
	size := rt.Int("size")
	rt.Assume(size >= 0)
	rt.Assume(size <= rt.Param("MAXSIZE"))
	max := rt.Int("max")
	rt.Assume(max >= 0)
	rt.Assume(max <= rt.Param("MAXSIZE"))
	early := rt.Bool("early")
	var timeout time.Duration
	if rt.Bool("timeout") {
		timeout = 200 * time.Millisecond
	}
	next := &verifNext{}
	for k := 0; k < 4; k++ {
		next.fail = append(next.fail, rt.Bool("exportFails"))
	}
	cfg := &Config{SendBatchSize: uint32(size), SendBatchMaxSize: uint32(max), Timeout: timeout, EarlyReturn: early}
	if cfg.Validate() != nil {
		return
	}
	bp := verifProcessorFromConfig(cfg, &verifTracer{}, func() batch {
		if signal == 1 {
			return newBatchLogs(next)
		}
		return newBatchMetrics(next)
	})
	rt.Reach("C05.system.config_valid")
	if err := bp.Start(context.Background(), nil); err != nil {
		rt.Assert(false, "C05.system.start")
	}
	results := make([]error, callers)
	counts := make([]int, callers)
	var wg sync.WaitGroup
	for c := 0; c < callers; c++ {
		n := rt.Int("n")
		rt.Assume(n >= 1)
		rt.Assume(n <= items)
		counts[c] = n
		wg.Add(1)
		go func(c, n int) {
			defer wg.Done()
			if signal == 1 {
				results[c] = bp.ConsumeLogs(context.Background(), verifLogsReq(int64(100*(c+1)), n))
			} else {
				results[c] = bp.ConsumeMetrics(context.Background(), verifMetricsReq(int64(100*(c+1)), n))
			}
		}(c, n)
	}
	wg.Wait()
	if err := bp.Shutdown(context.Background()); err != nil {
		rt.Assert(false, "C05.system.shutdown")
	}
	seen := map[int64]int{}
	for _, e := range next.exports {
		rt.Assert(len(e.ids) > 0, "C09.system.no_empty_batch")
		if max > 0 {
			rt.Assert(len(e.ids) <= max, "C09.system.max_size")
		}
		for _, id := range e.ids {
			seen[id]++
		}
	}
	total := 0
	for c := 0; c < callers; c++ {
		anyFailed := false
		for i := 0; i < counts[c]; i++ {
			id := int64(100*(c+1) + i)
			rt.Assert(seen[id] == 1, "C05.system.exactly_once")
			total++
			for _, e := range next.exports {
				for _, x := range e.ids {
					if x == id && e.failed {
						anyFailed = true
					}
				}
			}
		}
		if early {
			rt.Assert(results[c] == nil, "C06.system.early_return_nil")
		} else {
			rt.Assert((results[c] == nil) == !anyFailed, "C06.system.true_outcome")
			if results[c] != nil {
				rt.Assert(errors.Is(results[c], errVerifExport), "C06.system.error_wraps_export_failure")
			}
		}
	}
	rt.Assert(len(seen) == total, "C05.system.nothing_invented")
	rt.Assert(next.inflight == 0, "C11.system.exports_returned_at_shutdown")
	rt.Assert(verifLeaked() == 0, "C11.system.no_goroutine_left")
}
