package concurrentbatchprocessor

import (
	"context"
	"sync"
	"time"

	rt "github.com/open-telemetry/otel-arrow/collector/processor/concurrentbatchprocessor/zzverifrt"
)

var verifDelays = []time.Duration{0, 100 * time.Millisecond, 250 * time.Millisecond}

// VerifHarness_C09_deadline: callers arrive at decision-chosen virtual instants relative to the flush
// timer; the harness alternates "run until everyone is blocked" with "advance the virtual clock to the
// next timer", checking at every quiescent point the shard invariant (buffer below send_batch_size when a
// timer exists, empty otherwise; pending counts add up) and that no buffered item is older than `timeout`;
// finally every exported item left within `timeout` of its acceptance and no batch is empty or oversized.
func VerifHarness_C09_deadline() {
	callers := rt.Param("CALLERS")
	size := rt.Int("size")
	rt.Assume(size >= 0)
	rt.Assume(size <= rt.Param("MAXSIZE"))
	max := rt.Int("max")
	rt.Assume(max >= 0)
	rt.Assume(max <= rt.Param("MAXSIZE"))
	var timeout time.Duration
	if rt.Bool("timeout") {
		timeout = 200 * time.Millisecond
	}
	T := int64(timeout)
	if size == 0 {
		T = 0 // "immediately when timeout or send_batch_size is zero"
	}
	next := &verifNext{}
	bp := verifNewProcessor(next, &verifTracer{}, size, max, timeout, false, nil, 0, 0)
	if bp == nil {
		return
	}
	_ = bp.Start(context.Background(), nil)
	accept := map[int64]int64{}
	done := 0
	var mu sync.Mutex // native runs only: callers are real goroutines there
	var wg sync.WaitGroup
	for c := 0; c < callers; c++ {
		n := rt.Int("n")
		rt.Assume(n >= 1)
		rt.Assume(n <= rt.Param("ITEMS"))
		delay := verifDelays[rt.Choose(3)]
		wg.Add(1)
		go func(c, n int, delay time.Duration) {
			defer wg.Done()
			time.Sleep(delay)
			now := rt.NowNanos()
			if !rt.Symbolic() {
				mu.Lock()
			}
			for i := 0; i < n; i++ {
				accept[int64(100*(c+1)+i)] = now
			}
			if !rt.Symbolic() {
				mu.Unlock()
			}
			_ = bp.ConsumeTraces(context.Background(), verifTraces(int64(100*(c+1)), n))
			if !rt.Symbolic() {
				mu.Lock()
			}
			done++
			if !rt.Symbolic() {
				mu.Unlock()
			}
		}(c, n, delay)
	}
	exportedAt := func(id int64) (int64, bool) {
		for _, e := range next.exports {
			for _, x := range e.ids {
				if x == id {
					return e.at, true
				}
			}
		}
		return 0, false
	}
	sh := bp.batcher.(*singleShardBatcher).batcher
	for step := 0; step < 10; step++ {
		rt.Quiesce()
		cnt := sh.batch.itemCount()
		if sh.hasTimer() {
			rt.Assert(cnt < size, "C09.deadline.buffer_below_size_between_events")
		} else {
			rt.Assert(cnt == 0, "C09.deadline.no_buffering_without_timer")
		}
		sum := 0
		for _, p := range sh.pending {
			rt.Assert(p.numItems > 0, "C05.inv.pending_positive")
			sum += p.numItems
		}
		rt.Assert(sum == cnt, "C05.inv.pending_sums_to_buffer")
		now := rt.NowNanos()
		for id, a := range accept {
			if _, ok := exportedAt(id); !ok {
				rt.Assert(now-a <= T, "C09.deadline.buffered_item_not_overdue")
			}
		}
		if done == callers && cnt == 0 {
			break
		}
		if !rt.AdvanceTime() {
			break
		}
	}
	wg.Wait()
	_ = bp.Shutdown(context.Background())
	for _, e := range next.exports {
		rt.Assert(len(e.ids) > 0, "C09.deadline.no_empty_batch")
		if max > 0 {
			rt.Assert(len(e.ids) <= max, "C09.deadline.max_size")
		}
		for _, id := range e.ids {
			rt.Assert(e.at-accept[id] <= T, "C09.deadline.exported_within_timeout")
		}
	}
	for id := range accept {
		_, ok := exportedAt(id)
		rt.Assert(ok, "C09.deadline.everything_exported")
	}
}
