package concurrentbatchprocessor

import (
	"errors"
	"context"
	"sync"
	"time"

	"go.opentelemetry.io/collector/client"

	rt "github.com/open-telemetry/otel-arrow/collector/processor/concurrentbatchprocessor/zzverifrt"
)

// VerifHarness_C06_cancel_split: caller A's request (1..ITEMS items) may be split over several batches
// (symbolic size/max), its leftover merged with caller B's items; A's context is cancelled by a third
// goroutine at any scheduling point, so A may leave with unread notifications in its one-slot response
// channel. B must still be told the true outcome of its own items, everything B sent is exported exactly
// once, A's items at most once, Shutdown returns and no goroutine is left blocked (a stuck export
// goroutine shows up as a deadlock).
func VerifHarness_C06_cancel_split() {
	size := rt.Int("size")
	rt.Assume(size >= 1)
	rt.Assume(size <= rt.Param("MAXSIZE"))
	max := rt.Int("max")
	rt.Assume(max >= 0)
	rt.Assume(max <= rt.Param("MAXSIZE"))
	next := &verifNext{}
	bp := verifNewProcessor(next, &verifTracer{}, size, max, 200*time.Millisecond, false, nil, 0, 0)
	if bp == nil {
		return
	}
	_ = bp.Start(context.Background(), nil)
	ctxA, cancelA := context.WithCancel(context.Background())
	ctxB := context.WithValue(context.Background(), verifKey{}, "B") // a context distinct from A's
	nA := rt.Int("nA")
	rt.Assume(nA >= 1)
	rt.Assume(nA <= rt.Param("ITEMS"))
	nB := rt.Int("nB")
	rt.Assume(nB >= 1)
	rt.Assume(nB <= 2)
	var resB error
	var wg sync.WaitGroup
	wg.Add(3)
	go func() { defer wg.Done(); _ = bp.ConsumeTraces(ctxA, verifTraces(100, nA)) }()
	go func() { defer wg.Done(); resB = bp.ConsumeTraces(ctxB, verifTraces(200, nB)) }()
	go func() { defer wg.Done(); cancelA() }()
	wg.Wait()
	_ = bp.Shutdown(context.Background())
	seenA, seenB := 0, 0
	for _, e := range next.exports {
		for _, id := range e.ids {
			if id >= 200 {
				seenB++
			} else {
				seenA++
			}
		}
	}
	rt.Assert(resB == nil, "C06.cancel_split.other_caller_true_outcome")
	rt.Assert(seenB == nB, "C06.cancel_split.other_caller_exported_once")
	rt.Assert(seenA <= nA, "C06.cancel_split.cancelled_at_most_once")
	rt.Assert(verifLeaked() == 0, "C11.cancel_split.no_goroutine_left")
}

type verifKey struct{}

// VerifHarness_C05_cancel_after_accept: early_return on, max_concurrency 1, a gated export holding the slot:
// every caller's Consume returns nil (accepted) while its item still sits in the shard's input channel; then
// every caller context is cancelled (as RPC frameworks do once the handler returned) and Shutdown is called.
// Accepted items must still be exported exactly once.
func VerifHarness_C05_cancel_after_accept() {
	callers := rt.Param("CALLERS")
	next := &verifNext{gate: make(chan struct{})}
	bp := verifNewProcessor(next, &verifTracer{}, 1, 0, 0, true, nil, 0, 1)
	if bp == nil {
		return
	}
	_ = bp.Start(context.Background(), nil)
	results := make([]error, callers)
	cancels := make([]context.CancelFunc, callers)
	var wg sync.WaitGroup
	for c := 0; c < callers; c++ {
		ctx, cancel := context.WithCancel(context.Background())
		cancels[c] = cancel
		wg.Add(1)
		go func(c int, ctx context.Context) {
			defer wg.Done()
			results[c] = bp.ConsumeTraces(ctx, verifTraces(int64(100*(c+1)), 1))
		}(c, ctx)
	}
	wg.Wait() // early return: every Consume has returned
	for _, cancel := range cancels {
		cancel()
	}
	var sd sync.WaitGroup
	sd.Add(1)
	go func() { defer sd.Done(); _ = bp.Shutdown(context.Background()) }()
	close(next.gate)
	sd.Wait()
	seen := map[int64]int{}
	for _, e := range next.exports {
		for _, id := range e.ids {
			seen[id]++
		}
	}
	for c := 0; c < callers; c++ {
		rt.Assert(results[c] == nil, "C06.cancel_after_accept.early_return_nil")
		rt.Assert(seen[int64(100*(c+1))] == 1, "C05.cancel_after_accept.accepted_exported_once")
	}
}

// VerifHarness_C11_leftover_flush: max_concurrency 1 with a gated export holding the slot, send_batch_size 2,
// three callers x 1 item: the third item is a leftover that can only leave through the timer flush or the
// Shutdown flush. Those flushes must respect the concurrency limit too.
func VerifHarness_C11_leftover_flush() {
	early := rt.Bool("early")
	next := &verifNext{gate: make(chan struct{})}
	bp := verifNewProcessor(next, &verifTracer{}, 2, 0, 200*time.Millisecond, early, nil, 0, 1)
	if bp == nil {
		return
	}
	_ = bp.Start(context.Background(), nil)
	var wg sync.WaitGroup
	for c := 0; c < 3; c++ {
		wg.Add(1)
		go func(c int) {
			defer wg.Done()
			_ = bp.ConsumeTraces(context.Background(), verifTraces(int64(100*(c+1)), 1))
		}(c)
	}
	rt.Quiesce() // first export (2 items) is at the gate holding the only slot; the third item is buffered
	if rt.Bool("timerFirst") {
		rt.AdvanceTime() // the flush timer fires while the slot is still held
		rt.Quiesce()
	}
	var sd sync.WaitGroup
	sd.Add(1)
	go func() { defer sd.Done(); _ = bp.Shutdown(context.Background()) }()
	rt.Quiesce()
	close(next.gate)
	sd.Wait()
	wg.Wait()
	rt.Assert(next.maxSeen <= 1, "C11.leftover_flush.bounded")
	total := 0
	for _, e := range next.exports {
		total += len(e.ids)
	}
	rt.Assert(total == 3, "C11.leftover_flush.all_exported_by_shutdown")
	rt.Assert(verifLeaked() == 0, "C11.leftover_flush.no_goroutine_left")
}

// VerifHarness_C10_two_keys: two configured keys given in mixed case and unsorted order, two requests
// (so a batch can be assembled from two caller contexts and is exported under the shard's own context):
// the metadata visible to the export call must carry each key's own values.
func VerifHarness_C10_two_keys() {
	next := &verifNext{}
	bp := verifNewProcessor(next, &verifTracer{}, 2, 0, 200*time.Millisecond, false, []string{"X-Tenant", "region"}, 0, 0)
	if bp == nil {
		return
	}
	_ = bp.Start(context.Background(), nil)
	tenant, region := rt.String("tenant", 1), rt.String("region", 1)
	mk := func(tag string) context.Context {
		md := map[string][]string{"x-tenant": {tenant}, "region": {region}}
		return context.WithValue(client.NewContext(context.Background(), client.Info{Metadata: client.NewMetadata(md)}), verifKey{}, tag)
	}
	var wg sync.WaitGroup
	res := make([]error, 2)
	for r := 0; r < 2; r++ {
		wg.Add(1)
		go func(r int) {
			defer wg.Done()
			res[r] = bp.ConsumeTraces(mk(string(rune('A'+r))), verifTraces(int64(100*(r+1)), 1))
		}(r)
	}
	wg.Wait()
	_ = bp.Shutdown(context.Background())
	n := 0
	for _, e := range next.exports {
		n += len(e.ids)
		gt, gr := e.md.Get("x-tenant"), e.md.Get("region")
		rt.Assert(rt.And(len(gt) == 1, len(gr) == 1), "C10.two_keys.metadata_present")
		if len(gt) == 1 && len(gr) == 1 {
			rt.Assert(rt.And(gt[0] == tenant, gr[0] == region), "C10.two_keys.each_key_its_own_values")
		}
	}
	rt.Assert(n == 2, "C10.two_keys.all_exported")
	rt.Assert(rt.And(res[0] == nil, res[1] == nil), "C10.two_keys.accepted")
}

// VerifHarness_C06_export_notify: one sendItems step from a crafted shard state in which contributor A's
// one-slot response channel may already hold an unread notification (reachable when A's request was split
// over earlier batches). A then either keeps reading its channel or cancels its context and leaves
// (decision), at any scheduling point; the export may fail (symbolic). Contributor B must receive exactly
// one notification carrying the export outcome and its own item count, and the export goroutine must end
// (a goroutine stuck on A's full channel shows up as a deadlock).
func VerifHarness_C06_export_notify() {
	next := &verifNext{fail: []bool{rt.Bool("exportFails")}}
	bp := verifNewProcessor(next, &verifTracer{}, 2, 0, 200*time.Millisecond, false, nil, 0, 0)
	if bp == nil {
		return
	}
	sh := bp.newShard(nil)
	ctxA, cancelA := context.WithCancel(context.Background())
	ctxB := context.WithValue(context.Background(), verifKey{}, "B")
	chA, chB := make(chan countedError, 1), make(chan countedError, 1)
	prefilled := rt.Bool("A.hasUnreadNotification")
	if prefilled {
		chA <- countedError{count: 1}
	}
	sh.batch.add(verifTraces(100, 1))
	sh.batch.add(verifTraces(200, 1))
	sh.pending = []pendingItem{{parentCtx: ctxA, numItems: 1, respCh: chA}, {parentCtx: ctxB, numItems: 1, respCh: chB}}
	var wg sync.WaitGroup
	wg.Add(1)
	if rt.Bool("A.cancels") {
		go func() { defer wg.Done(); cancelA() }() // A gives up and never reads again
	} else {
		go func() { // A keeps waiting for its notifications, as waitForItems does
			defer wg.Done()
			want := 1
			if prefilled {
				want = 2
			}
			for got := 0; got < want; {
				got += (<-chA).count
			}
		}()
	}
	sh.sendItems(triggerBatchSize)
	gotB := <-chB
	wg.Wait()
	bp.goroutines.Wait()
	rt.Assert(gotB.count == 1, "C06.export_notify.own_count")
	rt.Assert((gotB.err != nil) == next.exports[0].failed, "C06.export_notify.true_outcome")
	select {
	case <-chB:
		rt.Assert(false, "C06.export_notify.notified_once")
	default:
		rt.Assert(true, "C06.export_notify.notified_once")
	}
	rt.Assert(len(next.exports) == 1 && len(next.exports[0].ids) == 2, "C06.export_notify.one_export_of_both")
	rt.Assert(verifLeaked() == 0, "C11.export_notify.no_goroutine_left")
}

// VerifHarness_C06_cancel_queued: max_concurrency 1 and a gated (stalled) export holding the slot, so the shard
// goroutine is blocked and its input channel (capacity NUMCPU) fills up: some callers are queued, the others are
// parked on the full channel (or, with early_return off, waiting for their responses). Then a symbolic subset of
// the caller contexts is cancelled while the downstream is STILL stalled. C06: a caller whose context ended
// returns promptly with the context error - it must not wait for the downstream; its items are delivered at
// most once. Callers whose context is alive and who had not returned must not be affected.
func VerifHarness_C06_cancel_queued() {
	callers := rt.Param("CALLERS")
	early := rt.Bool("early")
	next := &verifNext{gate: make(chan struct{})}
	bp := verifNewProcessor(next, &verifTracer{}, 1, 0, 0, early, nil, 0, 1)
	if bp == nil {
		return
	}
	_ = bp.Start(context.Background(), nil)
	results := make([]error, callers)
	done := make([]bool, callers)
	cancels := make([]context.CancelFunc, callers)
	var wg sync.WaitGroup
	for c := 0; c < callers; c++ {
		ctx, cancel := context.WithCancel(context.Background())
		cancels[c] = cancel
		wg.Add(1)
		go func(c int, ctx context.Context) {
			defer wg.Done()
			results[c] = bp.ConsumeTraces(ctx, verifTraces(int64(100*(c+1)), 1))
			done[c] = true
		}(c, ctx)
	}
	rt.Quiesce() // first export at the gate, shard on the slot, callers queued / parked / waiting
	doneBefore := make([]bool, callers)
	cancelled := make([]bool, callers)
	for c := 0; c < callers; c++ {
		doneBefore[c] = done[c]
		cancelled[c] = rt.Bool("cancel")
	}
	for c := 0; c < callers; c++ {
		if cancelled[c] {
			cancels[c]()
		}
	}
	rt.Quiesce() // the downstream is still stalled and no virtual time passes
	for c := 0; c < callers; c++ {
		if cancelled[c] {
			rt.Assert(done[c], "C06.cancel_queued.returns_promptly")
			if done[c] && !doneBefore[c] {
				rt.Assert(results[c] != nil && errors.Is(results[c], context.Canceled), "C06.cancel_queued.context_error")
			}
		} else if !doneBefore[c] {
			rt.Assert(!done[c], "C06.cancel_queued.live_caller_not_released_early")
		}
	}
	var sd sync.WaitGroup
	sd.Add(1)
	go func() { defer sd.Done(); _ = bp.Shutdown(context.Background()) }()
	close(next.gate)
	sd.Wait()
	wg.Wait()
	seen := map[int64]int{}
	for _, e := range next.exports {
		for _, id := range e.ids {
			seen[id]++
		}
	}
	for c := 0; c < callers; c++ {
		id := int64(100 * (c + 1))
		rt.Assert(seen[id] <= 1, "C06.cancel_queued.at_most_once")
		if results[c] == nil && !early {
			rt.Assert(seen[id] == 1, "C06.cancel_queued.nil_means_exported") // (with early_return nil only means queued: C05's business)
		}
	}
	for _, cancel := range cancels {
		cancel()
	}
}
