package concurrentbatchprocessor

import (
	"context"
	"sync"
	"time"

	"go.opentelemetry.io/otel/trace"

	rt "github.com/open-telemetry/otel-arrow/collector/processor/concurrentbatchprocessor/zzverifrt"
)

func verifCount(xs []int, x int) int {
	n := 0
	for _, y := range xs {
		if y == x {
			n++
		}
	}
	return n
}

// VerifHarness_C18_export_ctx: two callers with distinct contexts (each carrying its own span),
// requests merged and/or split by symbolic (size,max); caller A's context may be cancelled by a third
// goroutine at any scheduling point; the next consumer honours cancellation.
func VerifHarness_C18_export_ctx() {
	size := rt.Int("size")
	rt.Assume(size >= 1)
	rt.Assume(size <= rt.Param("MAXSIZE"))
	max := rt.Int("max")
	rt.Assume(max >= 0)
	rt.Assume(max <= rt.Param("MAXSIZE"))
	tracer := &verifTracer{}
	next := &verifNext{honourCtx: true, tracer: tracer}
	bp := verifNewProcessor(next, tracer, size, max, 200*time.Millisecond, false, nil, 0, 0)
	if bp == nil {
		return
	}
	_ = bp.Start(context.Background(), nil)
	parentA, cancelA := context.WithCancel(context.Background())
	ctxA, sA := tracer.Start(parentA, "callerA")
	ctxB, sB := tracer.Start(context.Background(), "callerB")
	spanA, spanB := sA.(*verifSpan), sB.(*verifSpan)
	nA := rt.Int("nA")
	rt.Assume(nA >= 1)
	rt.Assume(nA <= rt.Param("ITEMS"))
	nB := rt.Int("nB")
	rt.Assume(nB >= 1)
	rt.Assume(nB <= rt.Param("ITEMS"))
	var resA, resB error
	var wg sync.WaitGroup
	wg.Add(2)
	// each caller ends its request span as soon as its Consume call returns
	go func() { defer wg.Done(); resA = bp.ConsumeTraces(ctxA, verifTraces(100, nA)); sA.End() }()
	go func() { defer wg.Done(); resB = bp.ConsumeTraces(ctxB, verifTraces(200, nB)); sB.End() }()
	if rt.Bool("cancelA") {
		wg.Add(1)
		go func() { defer wg.Done(); cancelA() }()
	}
	wg.Wait()
	_ = bp.Shutdown(context.Background())
	_ = resA

	seenB := 0
	seenA := 0
	for _, e := range next.exports {
		fromA, fromB := 0, 0
		for _, id := range e.ids {
			if id >= 200 {
				fromB++
			} else {
				fromA++
			}
		}
		seenA += fromA
		seenB += fromB
		es, ok := trace.SpanFromContext(e.ctx).(*verifSpan)
		rt.Assert(ok, "C18.export_ctx.has_export_span")
		if !ok {
			continue
		}
		if fromA > 0 && fromB > 0 {
			rt.Reach("C18.export_ctx.merged")
			// exported under the processor's own context: A's cancellation cannot touch it
			rt.Assert(e.ctxErr == nil, "C18.export_ctx.own_context_at_entry")
			rt.Assert(e.ctx.Err() == nil, "C18.export_ctx.own_context_after_cancel")
			rt.Assert(!e.failed, "C18.export_ctx.merged_export_not_failed_by_cancel")
			rt.Assert(es.parent == -1, "C18.links.merged_is_root")
			rt.Assert(verifCount(es.links, spanA.id) == 1, "C18.links.link_to_A")
			rt.Assert(verifCount(es.links, spanB.id) == 1, "C18.links.link_to_B")
			// a contributor whose span was still open when the export call began has its link back
			// (a span that already ended silently ignores AddLink, so nothing can be required of it)
			if verifCount(e.open, spanA.id) == 1 {
				rt.Assert(verifCount(spanA.links, es.id) == 1, "C18.links.backlink_A")
			}
			rt.Assert(verifCount(spanA.links, es.id) <= 1, "C18.links.backlink_A_at_most_once")
			rt.Assert(verifCount(spanB.links, es.id) == 1, "C18.links.backlink_B")
		} else if fromB > 0 {
			rt.Assert(es.parent == spanB.id, "C18.links.single_is_child_B")
			rt.Assert(!e.failed, "C18.export_ctx.B_only_export_ok")
		} else {
			rt.Assert(es.parent == spanA.id, "C18.links.single_is_child_A")
		}
	}
	// B never cancelled and no export failure injected: B's fate must not depend on A
	rt.Assert(resB == nil, "C18.other_caller_unaffected")
	rt.Assert(seenB == nB, "C18.other_caller_items_exported_once")
	rt.Assert(seenA <= nA, "C06.cancelled_items_at_most_once")
}
