package concurrentbatchprocessor

import (
	"context"
	"sync"
	"time"

	"go.opentelemetry.io/otel/trace"

	rt "github.com/open-telemetry/otel-arrow/collector/processor/concurrentbatchprocessor/zzverifrt"
)

func verifCount(xs []int, x int) int {
	n := 0
	for _, y := range xs {
		if y == x {
			n++
		}
	}
	return n
}

// VerifHarness_C18_export_ctx: two callers with distinct contexts (each carrying its own span),
// requests merged and/or split by symbolic (size,max); caller A's context may be cancelled by a third
// goroutine at any scheduling point; the next consumer honours cancellation.
func VerifHarness_C18_export_ctx() {
	size := rt.Int("size")
	rt.Assume(size >= 1)
	rt.Assume(size <= rt.Param("MAXSIZE"))
	max := rt.Int("max")
	rt.Assume(max >= 0)
	rt.Assume(max <= rt.Param("MAXSIZE"))
	tracer := &verifTracer{}
	next := &verifNext{honourCtx: true, tracer: tracer}
	bp := verifNewProcessor(next, tracer, size, max, 200*time.Millisecond, false, nil, 0, 0)
	if bp == nil {
		return
	}
	_ = bp.Start(context.Background(), nil)
	parentA, cancelA := context.WithCancel(context.Background())
	ctxA, sA := tracer.Start(parentA, "callerA")
	ctxB, sB := tracer.Start(context.Background(), "callerB")
	spanA, spanB := sA.(*verifSpan), sB.(*verifSpan)
	nA := rt.Int("nA")
	rt.Assume(nA >= 1)
	rt.Assume(nA <= rt.Param("ITEMS"))
	nB := rt.Int("nB")
	rt.Assume(nB >= 1)
	rt.Assume(nB <= rt.Param("ITEMS"))
	var resA, resB error
	var wg sync.WaitGroup
	wg.Add(2)
	// each caller ends its request span as soon as its Consume call returns
	go func() { defer wg.Done(); resA = bp.ConsumeTraces(ctxA, verifTraces(100, nA)); sA.End() }()
	go func() { defer wg.Done(); resB = bp.ConsumeTraces(ctxB, verifTraces(200, nB)); sB.End() }()
	if rt.Bool("cancelA") {
		wg.Add(1)
		go func() { defer wg.Done(); cancelA() }()
	}
	wg.Wait()
	_ = bp.Shutdown(context.Background())
	_ = resA

	seenB := 0
	seenA := 0
	for _, e := range next.exports {
		fromA, fromB := 0, 0
		for _, id := range e.ids {
			if id >= 200 {
				fromB++
			} else {
				fromA++
			}
		}
		seenA += fromA
		seenB += fromB
		es, ok := trace.SpanFromContext(e.ctx).(*verifSpan)
		rt.Assert(ok, "C18.export_ctx.has_export_span")
		if !ok {
			continue
		}
		if fromA > 0 && fromB > 0 {
			rt.Reach("C18.export_ctx.merged")
			// exported under the processor's own context: A's cancellation cannot touch it
			rt.Assert(e.ctxErr == nil, "C18.export_ctx.own_context_at_entry")
			rt.Assert(e.ctx.Err() == nil, "C18.export_ctx.own_context_after_cancel")
			rt.Assert(!e.failed, "C18.export_ctx.merged_export_not_failed_by_cancel")
			rt.Assert(es.parent == -1, "C18.links.merged_is_root")
			rt.Assert(verifCount(es.links, spanA.id) == 1, "C18.links.link_to_A")
			rt.Assert(verifCount(es.links, spanB.id) == 1, "C18.links.link_to_B")
			// a contributor whose span was still open when the export call began has its link back
			// (a span that already ended silently ignores AddLink, so nothing can be required of it)
			if verifCount(e.open, spanA.id) == 1 {
				rt.Assert(verifCount(spanA.links, es.id) == 1, "C18.links.backlink_A")
			}
			rt.Assert(verifCount(spanA.links, es.id) <= 1, "C18.links.backlink_A_at_most_once")
			rt.Assert(verifCount(spanB.links, es.id) == 1, "C18.links.backlink_B")
		} else if fromB > 0 {
			rt.Assert(es.parent == spanB.id, "C18.links.single_is_child_B")
			rt.Assert(!e.failed, "C18.export_ctx.B_only_export_ok")
		} else {
			rt.Assert(es.parent == spanA.id, "C18.links.single_is_child_A")
		}
	}
	// B never cancelled and no export failure injected: B's fate must not depend on A
	rt.Assert(resB == nil, "C18.other_caller_unaffected")
	rt.Assert(seenB == nB, "C18.other_caller_items_exported_once")
	rt.Assert(seenA <= nA, "C06.cancelled_items_at_most_once")
}

// VerifHarness_C18_slot_wait: max_concurrency 1 and a stalled export (of a filler request) holding the only slot;
// callers A and B (distinct contexts, 1 item each) are merged into one batch (send_batch_size 2) that has to WAIT
// for the slot. While it waits (or at any other scheduling point) A's context may be cancelled. Then the
// downstream moves again. B never cancelled and no export fails: B's call returns nil and B's item is exported
// exactly once, under a context A's cancellation cannot touch. The roles are symmetric in a symbolic flag (the
// cancelled caller may be the first or the second contributor of the batch).
func VerifHarness_C18_slot_wait() {
	tracer := &verifTracer{}
	next := &verifNext{honourCtx: true, tracer: tracer, gate: make(chan struct{})}
	bp := verifNewProcessor(next, tracer, 2, 0, 200*time.Millisecond, false, nil, 0, 1) // a timer, so that the shard waits for send_batch_size
	if bp == nil {
		return
	}
	_ = bp.Start(context.Background(), nil)
	var wg sync.WaitGroup
	var resF, resA, resB error
	wg.Add(1)
	go func() { defer wg.Done(); resF = bp.ConsumeTraces(context.Background(), verifTraces(900, 2)) }()
	rt.Quiesce() // the filler's export is at the gate and holds the slot
	parentA, cancelA := context.WithCancel(context.Background())
	ctxA, sA := tracer.Start(parentA, "callerA")
	ctxB, sB := tracer.Start(context.Background(), "callerB")
	aFirst := rt.Bool("cancelledCallerArrivesFirst")
	wg.Add(2)
	if aFirst {
		go func() { defer wg.Done(); resA = bp.ConsumeTraces(ctxA, verifTraces(100, 1)); sA.End() }()
		rt.Quiesce()
		go func() { defer wg.Done(); resB = bp.ConsumeTraces(ctxB, verifTraces(200, 1)); sB.End() }()
	} else {
		go func() { defer wg.Done(); resB = bp.ConsumeTraces(ctxB, verifTraces(200, 1)); sB.End() }()
		rt.Quiesce()
		go func() { defer wg.Done(); resA = bp.ConsumeTraces(ctxA, verifTraces(100, 1)); sA.End() }()
	}
	if rt.Bool("cancelWhileWaitingForSlot") {
		rt.Quiesce() // the merged batch [A,B] is waiting for the slot
		cancelA()
	} else if rt.Bool("cancelA") {
		wg.Add(1)
		go func() { defer wg.Done(); cancelA() }()
	}
	rt.Quiesce()
	close(next.gate)
	wg.Wait()
	_ = bp.Shutdown(context.Background())
	_, _ = resA, resF
	seenA, seenB := 0, 0
	for _, e := range next.exports {
		hasB := false
		for _, id := range e.ids {
			if id == 200 {
				seenB++
				hasB = true
			}
			if id == 100 {
				seenA++
			}
		}
		if hasB {
			rt.Assert(!e.failed, "C18.slot_wait.export_carrying_B_not_failed_by_A")
			rt.Assert(e.ctxErr == nil, "C18.slot_wait.export_context_alive")
		}
	}
	rt.Assert(resB == nil, "C18.slot_wait.other_caller_unaffected")
	rt.Assert(seenB == 1, "C18.slot_wait.other_caller_item_exported_once")
	rt.Assert(seenA <= 1, "C18.slot_wait.cancelled_item_at_most_once")
}
