package concurrentbatchprocessor

import (
	rt "github.com/open-telemetry/otel-arrow/collector/processor/concurrentbatchprocessor/zzverifrt"
)

// Race-freedom obligations (C11 "is race free"): the scenario harnesses are run again with the engine's
// happens-before race detector switched on. Every plain (non-atomic) access the processor's code and the
// libraries under it make to a heap cell or a map is checked against the previous accesses of the other
// goroutines under the vector clocks of the explored schedule; a pair that no synchronisation orders is a
// data race. The scenario's own assertions stay active (a race may also show up as their failure).

func VerifHarness_C11_race_system() {
	rt.RaceBegin()
	VerifHarness_C05_system()
	rt.Assert(rt.RaceCount() == 0, "C11.race_system.race_free")
}

func VerifHarness_C11_race_concurrency() {
	rt.RaceBegin()
	VerifHarness_C11_concurrency()
	rt.Assert(rt.RaceCount() == 0, "C11.race_concurrency.race_free")
}

func VerifHarness_C11_race_shutdown() {
	rt.RaceBegin()
	VerifHarness_C05_shutdown_race()
	rt.Assert(rt.RaceCount() == 0, "C11.race_shutdown.race_free")
}

func VerifHarness_C11_race_tenants() {
	rt.RaceBegin()
	VerifHarness_C10_tenants()
	rt.Assert(rt.RaceCount() == 0, "C11.race_tenants.race_free")
}

func VerifHarness_C11_race_notify() {
	rt.RaceBegin()
	VerifHarness_C06_export_notify()
	rt.Assert(rt.RaceCount() == 0, "C11.race_notify.race_free")
}

func VerifHarness_C11_race_leftover() {
	rt.RaceBegin()
	VerifHarness_C11_leftover_flush()
	rt.Assert(rt.RaceCount() == 0, "C11.race_leftover.race_free")
}

func VerifHarness_C11_race_backlink() {
	rt.RaceBegin()
	VerifHarness_C18_export_ctx()
	rt.Assert(rt.RaceCount() == 0, "C11.race_backlink.race_free")
}
