package concurrentbatchprocessor

import (
	"context"
	"errors"
	"runtime"
	"sync"
	"time"

	"go.opentelemetry.io/collector/client"
	"go.opentelemetry.io/collector/pdata/pcommon"
	"go.opentelemetry.io/collector/pdata/plog"
	"go.opentelemetry.io/collector/pdata/pmetric"
	"go.opentelemetry.io/collector/pdata/ptrace"
	"go.opentelemetry.io/otel/metric"
	"go.opentelemetry.io/otel/metric/embedded"
	mnoop "go.opentelemetry.io/otel/metric/noop"
	"go.opentelemetry.io/otel/trace"
	tembedded "go.opentelemetry.io/otel/trace/embedded"
	tnoop "go.opentelemetry.io/otel/trace/noop"

	"go.opentelemetry.io/collector/component"
	"go.opentelemetry.io/collector/consumer"
	"go.opentelemetry.io/collector/processor"
	"go.uber.org/zap"

	rt "github.com/open-telemetry/otel-arrow/collector/processor/concurrentbatchprocessor/zzverifrt"
)

// ---- environment stubs shared by the batch-processor harnesses ----

// verifHist is a histogram instrument that reports itself disabled, so the export
// path does not compute OTLP byte sizes (formatting/encoding is not the subject).
type verifHist struct{ embedded.Int64Histogram }

func (verifHist) Record(context.Context, int64, ...metric.RecordOption) {}
func (verifHist) Enabled(context.Context) bool                          { return false }

var errVerifExport = errors.New("verif: export failed")

// verifExport is what the next consumer saw for one Consume* call.
type verifExport struct {
	ids      []int64 // item ids, in order
	ctxErr   error   // ctx.Err() on entry
	md       client.Metadata
	ctx      context.Context
	at       int64 // virtual time of the call
	failed   bool
	inflight int // exports in flight on entry (including this one)
	open     []int // ids of recorded spans that were still open (not ended) when the export call began
}

// verifNext records every export. Outcomes (success/failure) are taken from `fail`,
// indexed by call order; a call yields the processor once while "in flight".
type verifNext struct {
	exports   []*verifExport
	fail      []bool
	inflight  int
	maxSeen   int
	honourCtx bool // fail an export whose context is already done (a downstream that honours cancellation)
	gate      chan struct{} // when non-nil every export blocks until the gate is closed (a slow downstream)
	tracer    *verifTracer  // optional: lets begin() snapshot which spans are still open
	mu        sync.Mutex
}

func (n *verifNext) lock() {
	if !rt.Symbolic() {
		n.mu.Lock() // natively exports run on real goroutines; under the engine the baton already serialises them
	}
}

func (n *verifNext) unlock() {
	if !rt.Symbolic() {
		n.mu.Unlock()
	}
}

func (n *verifNext) begin(ctx context.Context, ids []int64) *verifExport {
	n.lock()
	n.inflight++
	if n.inflight > n.maxSeen {
		n.maxSeen = n.inflight
	}
	e := &verifExport{ids: ids, ctxErr: ctx.Err(), md: client.FromContext(ctx).Metadata, ctx: ctx, at: rtNow(), inflight: n.inflight}
	if n.tracer != nil {
		for _, sp := range n.tracer.spans {
			if !sp.ended {
				e.open = append(e.open, sp.id)
			}
		}
	}
	k := len(n.exports)
	n.exports = append(n.exports, e)
	if k < len(n.fail) && n.fail[k] {
		e.failed = true
	}
	if n.honourCtx && e.ctxErr != nil {
		e.failed = true
	}
	n.unlock()
	if n.gate != nil {
		<-n.gate
	}
	runtime.Gosched() // the export is "in flight": other goroutines may run
	n.lock()
	n.inflight--
	n.unlock()
	return e
}

func (n *verifNext) Capabilities() consumer.Capabilities { return consumer.Capabilities{} }

func (n *verifNext) ConsumeTraces(ctx context.Context, td ptrace.Traces) error {
	var ids []int64
	rss := td.ResourceSpans()
	for i := 0; i < rss.Len(); i++ {
		sss := rss.At(i).ScopeSpans()
		for j := 0; j < sss.Len(); j++ {
			ss := sss.At(j).Spans()
			for k := 0; k < ss.Len(); k++ {
				ids = append(ids, int64(ss.At(k).StartTimestamp()))
			}
		}
	}
	if n.begin(ctx, ids).failed {
		return errVerifExport
	}
	return nil
}

// ConsumeLogs / ConsumeMetrics: the same recording downstream for the other two signals (item id = timestamp).
func (n *verifNext) ConsumeLogs(ctx context.Context, ld plog.Logs) error {
	if n.begin(ctx, verifIDsOf(ld)).failed {
		return errVerifExport
	}
	return nil
}

func (n *verifNext) ConsumeMetrics(ctx context.Context, md pmetric.Metrics) error {
	if n.begin(ctx, verifIDsOf(md)).failed {
		return errVerifExport
	}
	return nil
}

// verifTraces builds one request: one resource, one scope, n spans with ids base+0..n-1.
func verifTraces(base int64, n int) ptrace.Traces {
	td := ptrace.NewTraces()
	ss := td.ResourceSpans().AppendEmpty().ScopeSpans().AppendEmpty().Spans()
	for i := 0; i < n; i++ {
		ss.AppendEmpty().SetStartTimestamp(pcommon.Timestamp(base + int64(i)))
	}
	return td
}

// verifSpan / verifTracer: a recording tracer (parent = span in ctx, links as given).
type verifSpan struct {
	tnoop.Span
	id     int
	parent int // id of the parent span, -1 for a root
	links  []int
	tr     *verifTracer
	ended  bool
}

func (s *verifSpan) SpanContext() trace.SpanContext {
	var sid trace.SpanID
	sid[7] = byte(s.id + 1)
	var tid trace.TraceID
	tid[15] = 1
	return trace.NewSpanContext(trace.SpanContextConfig{TraceID: tid, SpanID: sid})
}
// AddLink after End is ignored, as the OpenTelemetry SDK does.
func (s *verifSpan) AddLink(l trace.Link) {
	if !s.ended {
		s.links = append(s.links, int(l.SpanContext.SpanID()[7])-1)
	}
}
func (s *verifSpan) End(...trace.SpanEndOption) { s.ended = true }

type verifTracer struct {
	tembedded.Tracer
	spans []*verifSpan
}

func (t *verifTracer) Start(ctx context.Context, name string, opts ...trace.SpanStartOption) (context.Context, trace.Span) {
	cfg := trace.NewSpanStartConfig(opts...)
	s := &verifSpan{id: len(t.spans), parent: -1, tr: t}
	if p, ok := trace.SpanFromContext(ctx).(*verifSpan); ok {
		s.parent = p.id
	}
	for _, l := range cfg.Links() {
		s.links = append(s.links, int(l.SpanContext.SpanID()[7])-1)
	}
	t.spans = append(t.spans, s)
	return trace.ContextWithSpan(ctx, s), s
}

// verifNewProcessor builds a traces batch processor directly from its fields (the
// collector's component plumbing and telemetry SDK are not the subject).
func verifNewProcessor(next *verifNext, tracer trace.Tracer, size, max int, timeout time.Duration, early bool, keys []string, limit int, maxConc int) *batchProcessor {
	cfg := &Config{SendBatchSize: uint32(size), SendBatchMaxSize: uint32(max), Timeout: timeout, EarlyReturn: early,
		MetadataKeys: keys, MetadataCardinalityLimit: uint32(limit), MaxConcurrency: uint32(maxConc)}
	if cfg.Validate() != nil {
		return nil
	}
	bp := verifProcessorFromConfig(cfg, tracer, func() batch { return newBatchTraces(next) })
	return bp
}

func rtNow() int64 { return rt.NowNanos() }

type verifTP struct {
	tembedded.TracerProvider
	t trace.Tracer
}

func (p verifTP) Tracer(string, ...trace.TracerOption) trace.Tracer { return p.t }

func verifProcessorFromConfig(cfg *Config, tracer trace.Tracer, bf func() batch) *batchProcessor {
	set := processor.Settings{TelemetrySettings: component.TelemetrySettings{
		Logger: zap.NewNop(), MeterProvider: mnoop.NewMeterProvider(), TracerProvider: verifTP{t: tracer}}}
	bp, err := newBatchProcessor(set, cfg, bf)
	if err != nil {
		panic(err)
	}
	// byte-size accounting (OTLP protobuf sizing) is not the subject: report the instrument disabled
	bp.telemetry.telemetryBuilder.ProcessorBatchBatchSendSizeBytes = verifHist{}
	return bp
}
