package concurrentbatchprocessor

import (
	"context"
	"sync"
	"time"

	"go.opentelemetry.io/collector/client"
	"go.opentelemetry.io/collector/consumer/consumererror"

	rt "github.com/open-telemetry/otel-arrow/collector/processor/concurrentbatchprocessor/zzverifrt"
)

// verifMD builds request metadata for the configured key "tenant" (sent with arbitrary key case):
// shape 0 = absent, 1 = one value, 2 = two values; values are symbolic 0..1-byte strings.
func verifMD(tag string) (context.Context, []string) {
	shape := rt.Int("mdShape")
	rt.Assume(shape >= 0)
	rt.Assume(shape <= 2)
	var vals []string
	switch shape {
	case 1:
		vals = []string{rt.String("v0", 1)}
	case 2:
		vals = []string{rt.String("v0", 1), rt.String("v1", 1)}
	}
	md := map[string][]string{"other": {"x"}}
	if shape > 0 {
		if rt.Bool("upperKey") {
			md["TENANT"] = vals
		} else {
			md["tenant"] = vals
		}
	}
	return client.NewContext(context.Background(), client.Info{Metadata: client.NewMetadata(md)}), vals
}

func verifSameVals(a, b []string) bool {
	if len(a) != len(b) {
		return false
	}
	eq := true
	for i := range a {
		eq = rt.And(eq, a[i] == b[i])
	}
	return eq
}

// VerifHarness_C10_tenants: REQS concurrent first arrivals with arbitrary metadata for the configured
// (case-insensitive) key, symbolic cardinality limit, racing for the last free slots.
func VerifHarness_C10_tenants() {
	reqs := rt.Param("REQS")
	limit := rt.Int("limit")
	rt.Assume(limit >= 0)
	rt.Assume(limit <= 2)
	next := &verifNext{}
	tracer := &verifTracer{}
	// size 1: every accepted request is flushed at once, so exports are per request unless merged by the shard
	bp := verifNewProcessor(next, tracer, 1, 0, 200*time.Millisecond, false, []string{"Tenant"}, limit, 0)
	if bp == nil {
		return
	}
	_ = bp.Start(context.Background(), nil)
	ctxs := make([]context.Context, reqs)
	vals := make([][]string, reqs)
	res := make([]error, reqs)
	for r := 0; r < reqs; r++ {
		ctxs[r], vals[r] = verifMD("r")
	}
	var wg sync.WaitGroup
	for r := 0; r < reqs; r++ {
		wg.Add(1)
		go func(r int) {
			defer wg.Done()
			res[r] = bp.ConsumeTraces(ctxs[r], verifTraces(int64(100*(r+1)), 1))
		}(r)
	}
	wg.Wait()
	_ = bp.Shutdown(context.Background())

	owner := func(id int64) int { return int(id/100) - 1 }
	exported := make([]int, reqs)
	for _, e := range next.exports {
		first := owner(e.ids[0])
		for _, id := range e.ids {
			o := owner(id)
			exported[o]++
			rt.Assert(verifSameVals(vals[o], vals[first]), "C10.no_tenant_mixing")
		}
		got := e.md.Get("tenant")
		rt.Assert(verifSameVals(got, vals[first]), "C10.export_metadata_matches_combination")
	}
	admitted := 0 // distinct combinations among accepted requests
	for r := 0; r < reqs; r++ {
		if res[r] == nil {
			rt.Assert(exported[r] == 1, "C10.accepted_exported_once")
			dup := false
			for q := 0; q < r; q++ {
				if res[q] == nil {
					dup = rt.Or(dup, verifSameVals(vals[q], vals[r]))
				}
			}
			if !dup {
				admitted++
			}
		} else {
			rt.Reach("C10.refused")
			rt.Assert(consumererror.IsPermanent(res[r]), "C10.refusal_is_permanent")
			rt.Assert(exported[r] == 0, "C10.refused_not_exported")
			rt.Assert(limit > 0, "C10.no_refusal_when_unlimited")
		}
	}
	if limit > 0 {
		rt.Assert(admitted <= limit, "C10.cardinality_limit")
	}
	rt.Assert(bp.batcher.currentMetadataCardinality() <= reqs, "C10.cardinality_counter_sane")
	if limit > 0 {
		rt.Assert(bp.batcher.currentMetadataCardinality() <= limit, "C10.cardinality_counter_within_limit")
	}
}

// VerifHarness_C10_refused_retry: a SEQUENCE (each request after the previous one returned): the limit is filled
// with `limit` distinct admitted combinations, then a further, different combination X is sent TWICE, then an
// admitted combination once more. Both X requests are refused with a permanent error (the refusal of the first
// must leave nothing behind that lets the second slip through or hang), nothing of X is ever exported, the
// admitted combination is still served, the counter stays within the limit, and Shutdown returns.
func VerifHarness_C10_refused_retry() {
	limit := rt.Int("limit")
	rt.Assume(limit >= 1)
	rt.Assume(limit <= 2)
	early := rt.Bool("early")
	next := &verifNext{}
	bp := verifNewProcessor(next, &verifTracer{}, 1, 0, 200*time.Millisecond, early, []string{"Tenant"}, limit, 0)
	if bp == nil {
		return
	}
	_ = bp.Start(context.Background(), nil)
	mk := func(v string) context.Context {
		return client.NewContext(context.Background(), client.Info{Metadata: client.NewMetadata(map[string][]string{"tenant": {v}})})
	}
	names := []string{"a", "b"}
	for k := 0; k < limit; k++ {
		err := bp.ConsumeTraces(mk(names[k]), verifTraces(int64(100*(k+1)), 1))
		rt.Assert(err == nil, "C10.refused_retry.within_limit_admitted")
	}
	x := rt.String("x", 1)
	for k := 0; k < limit; k++ {
		rt.Assume(x != names[k])
	}
	for try := 0; try < 2; try++ {
		err := bp.ConsumeTraces(mk(x), verifTraces(int64(900+try), 1))
		rt.Assert(err != nil && consumererror.IsPermanent(err), "C10.refused_retry.over_limit_refused_every_time")
	}
	err := bp.ConsumeTraces(mk(names[0]), verifTraces(500, 1))
	rt.Assert(err == nil, "C10.refused_retry.admitted_still_served")
	_ = bp.Shutdown(context.Background())
	seen := map[int64]int{}
	for _, e := range next.exports {
		for _, id := range e.ids {
			seen[id]++
		}
	}
	rt.Assert(seen[900] == 0 && seen[901] == 0, "C10.refused_retry.refused_never_exported")
	rt.Assert(bp.batcher.currentMetadataCardinality() <= limit, "C10.refused_retry.counter_within_limit")
}
