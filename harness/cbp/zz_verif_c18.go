package concurrentbatchprocessor

import (
	"context"

	rt "github.com/open-telemetry/otel-arrow/collector/processor/concurrentbatchprocessor/zzverifrt"
)

// vctx gives distinct, comparable context identities.
type vctx struct {
	context.Context
	id int
}

// VerifHarness_C18_same_ctx: for every non-empty list of contributors (length <= LEN, each
// context one of three identities chosen symbolically), allSameContext(x) holds iff every
// contributor's context equals the first one's.
func VerifHarness_C18_same_ctx() {
	pool := []context.Context{&vctx{id: 0}, &vctx{id: 1}, &vctx{id: 2}}
	n := rt.Int("n")
	rt.Assume(n >= 1 && n <= rt.Param("LEN"))
	x := make([]pendingTuple, 0, 8)
	allEq := true
	first := 0
	for i := 0; i < n; i++ {
		k := rt.Int("ctx")
		rt.Assume(k >= 0 && k < 3)
		if i == 0 {
			first = k
		}
		allEq = rt.And(allEq, k == first)
		x = append(x, pendingTuple{ctx: pool[k]})
	}
	got := allSameContext(x)
	rt.Observe("allSame", got)
	rt.Assert(got == allEq, "C18.same_ctx.iff")
}
