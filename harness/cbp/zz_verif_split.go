package concurrentbatchprocessor

import (
	"context"
	"fmt"

	"go.opentelemetry.io/collector/pdata/pcommon"
	"go.opentelemetry.io/collector/pdata/plog"
	"go.opentelemetry.io/collector/pdata/pmetric"
	"go.opentelemetry.io/collector/pdata/ptrace"

	rt "github.com/open-telemetry/otel-arrow/collector/processor/concurrentbatchprocessor/zzverifrt"
)

func verifCountUpTo(name string, max int) int {
	n := rt.Int(name)
	rt.Assume(n >= 0)
	rt.Assume(n <= max)
	return n
}

// verifHome is the identity of the containers an item arrived under.
type verifHome struct {
	res, resURL, scope, scopeURL, metric string
}

func verifResIdentity(res pcommon.Resource) string {
	v, _ := res.Attributes().Get("id")
	return v.Str()
}

// VerifHarness_C05_split_traces: any shape (MAXR resources x MAXS scopes x MAXN spans, empty containers
// allowed), every container with its own identity (resource attribute + schema URL, scope name + schema
// URL), every span a distinct id, symbolic size >= 1: splitTraces hands out exactly min(size,total) spans;
// dest and the remainder partition the original ids; every span still sits under containers carrying the
// identity it arrived with.
func VerifHarness_C05_split_traces() {
	src := ptrace.NewTraces()
	home := map[int64]verifHome{}
	total := 0
	nr := verifCountUpTo("resources", rt.Param("MAXR"))
	for r := 0; r < nr; r++ {
		rs := src.ResourceSpans().AppendEmpty()
		h := verifHome{res: fmt.Sprintf("res%d", r), resURL: fmt.Sprintf("rurl%d", r)}
		rs.Resource().Attributes().PutStr("id", h.res)
		rs.SetSchemaUrl(h.resURL)
		ns := verifCountUpTo("scopes", rt.Param("MAXS"))
		for s := 0; s < ns; s++ {
			ss := rs.ScopeSpans().AppendEmpty()
			h.scope, h.scopeURL = fmt.Sprintf("scope%d.%d", r, s), fmt.Sprintf("surl%d.%d", r, s)
			ss.Scope().SetName(h.scope)
			ss.SetSchemaUrl(h.scopeURL)
			nn := verifCountUpTo("spans", rt.Param("MAXN"))
			for n := 0; n < nn; n++ {
				id := int64(r*100 + s*10 + n + 1)
				ss.Spans().AppendEmpty().SetStartTimestamp(pcommon.Timestamp(id))
				home[id] = h
				total++
			}
		}
	}
	size := rt.Int("size")
	rt.Assume(size >= 1)
	rt.Assume(size <= total+1)
	dest := splitTraces(size, src)
	want := size
	if total <= size {
		want = total
	}
	rt.Observe("destCount", dest.SpanCount())
	rt.Assert(dest.SpanCount() == want, "C05.split_traces.dest_count")
	seen := map[int64]int{}
	walk := func(td ptrace.Traces) {
		for i := 0; i < td.ResourceSpans().Len(); i++ {
			rs := td.ResourceSpans().At(i)
			for j := 0; j < rs.ScopeSpans().Len(); j++ {
				ss := rs.ScopeSpans().At(j)
				for k := 0; k < ss.Spans().Len(); k++ {
					id := int64(ss.Spans().At(k).StartTimestamp())
					seen[id]++
					h := home[id]
					rt.Assert(verifResIdentity(rs.Resource()) == h.res, "C05.split_traces.resource_identity")
					rt.Assert(rs.SchemaUrl() == h.resURL, "C05.split_traces.resource_schema_url")
					rt.Assert(ss.Scope().Name() == h.scope, "C05.split_traces.scope_identity")
					rt.Assert(ss.SchemaUrl() == h.scopeURL, "C05.split_traces.scope_schema_url")
				}
			}
		}
	}
	walk(dest)
	if total > size {
		rt.Reach("C05.split_traces.partial")
		rt.Assert(src.SpanCount() == total-size, "C05.split_traces.remainder_count")
		walk(src)
	}
	for id := range home {
		rt.Assert(seen[id] == 1, "C05.split_traces.exactly_once")
	}
	rt.Assert(len(seen) == total, "C05.split_traces.nothing_invented")
}

// VerifHarness_C05_split_logs: the same for splitLogs.
func VerifHarness_C05_split_logs() {
	src := plog.NewLogs()
	home := map[int64]verifHome{}
	total := 0
	nr := verifCountUpTo("resources", rt.Param("MAXR"))
	for r := 0; r < nr; r++ {
		rs := src.ResourceLogs().AppendEmpty()
		h := verifHome{res: fmt.Sprintf("res%d", r), resURL: fmt.Sprintf("rurl%d", r)}
		rs.Resource().Attributes().PutStr("id", h.res)
		rs.SetSchemaUrl(h.resURL)
		ns := verifCountUpTo("scopes", rt.Param("MAXS"))
		for s := 0; s < ns; s++ {
			ss := rs.ScopeLogs().AppendEmpty()
			h.scope, h.scopeURL = fmt.Sprintf("scope%d.%d", r, s), fmt.Sprintf("surl%d.%d", r, s)
			ss.Scope().SetName(h.scope)
			ss.SetSchemaUrl(h.scopeURL)
			nn := verifCountUpTo("records", rt.Param("MAXN"))
			for n := 0; n < nn; n++ {
				id := int64(r*100 + s*10 + n + 1)
				ss.LogRecords().AppendEmpty().SetTimestamp(pcommon.Timestamp(id))
				home[id] = h
				total++
			}
		}
	}
	size := rt.Int("size")
	rt.Assume(size >= 1)
	rt.Assume(size <= total+1)
	dest := splitLogs(size, src)
	want := size
	if total <= size {
		want = total
	}
	rt.Observe("destCount", dest.LogRecordCount())
	rt.Assert(dest.LogRecordCount() == want, "C05.split_logs.dest_count")
	seen := map[int64]int{}
	walk := func(ld plog.Logs) {
		for i := 0; i < ld.ResourceLogs().Len(); i++ {
			rs := ld.ResourceLogs().At(i)
			for j := 0; j < rs.ScopeLogs().Len(); j++ {
				ss := rs.ScopeLogs().At(j)
				for k := 0; k < ss.LogRecords().Len(); k++ {
					id := int64(ss.LogRecords().At(k).Timestamp())
					seen[id]++
					h := home[id]
					rt.Assert(verifResIdentity(rs.Resource()) == h.res, "C05.split_logs.resource_identity")
					rt.Assert(rs.SchemaUrl() == h.resURL, "C05.split_logs.resource_schema_url")
					rt.Assert(ss.Scope().Name() == h.scope, "C05.split_logs.scope_identity")
					rt.Assert(ss.SchemaUrl() == h.scopeURL, "C05.split_logs.scope_schema_url")
				}
			}
		}
	}
	walk(dest)
	if total > size {
		rt.Reach("C05.split_logs.partial")
		rt.Assert(src.LogRecordCount() == total-size, "C05.split_logs.remainder_count")
		walk(src)
	}
	for id := range home {
		rt.Assert(seen[id] == 1, "C05.split_logs.exactly_once")
	}
	rt.Assert(len(seen) == total, "C05.split_logs.nothing_invented")
}

// verifAddPoints appends n points with ids to a metric of the given type and returns the ids.
func verifAddPoints(m pmetric.Metric, typ int, n int, base int64) []int64 {
	var ids []int64
	for p := 0; p < n; p++ {
		id := base + int64(p)
		ts := pcommon.Timestamp(id)
		switch typ {
		case 1:
			m.Gauge().DataPoints().AppendEmpty().SetStartTimestamp(ts)
		case 2:
			m.Sum().DataPoints().AppendEmpty().SetStartTimestamp(ts)
		case 3:
			m.Histogram().DataPoints().AppendEmpty().SetStartTimestamp(ts)
		case 4:
			m.ExponentialHistogram().DataPoints().AppendEmpty().SetStartTimestamp(ts)
		case 5:
			m.Summary().DataPoints().AppendEmpty().SetStartTimestamp(ts)
		}
		ids = append(ids, id)
	}
	return ids
}

func verifPointIDs(m pmetric.Metric) []int64 {
	var ids []int64
	switch m.Type() {
	case pmetric.MetricTypeGauge:
		for i := 0; i < m.Gauge().DataPoints().Len(); i++ {
			ids = append(ids, int64(m.Gauge().DataPoints().At(i).StartTimestamp()))
		}
	case pmetric.MetricTypeSum:
		for i := 0; i < m.Sum().DataPoints().Len(); i++ {
			ids = append(ids, int64(m.Sum().DataPoints().At(i).StartTimestamp()))
		}
	case pmetric.MetricTypeHistogram:
		for i := 0; i < m.Histogram().DataPoints().Len(); i++ {
			ids = append(ids, int64(m.Histogram().DataPoints().At(i).StartTimestamp()))
		}
	case pmetric.MetricTypeExponentialHistogram:
		for i := 0; i < m.ExponentialHistogram().DataPoints().Len(); i++ {
			ids = append(ids, int64(m.ExponentialHistogram().DataPoints().At(i).StartTimestamp()))
		}
	case pmetric.MetricTypeSummary:
		for i := 0; i < m.Summary().DataPoints().Len(); i++ {
			ids = append(ids, int64(m.Summary().DataPoints().At(i).StartTimestamp()))
		}
	}
	return ids
}

type verifDesc struct {
	name, desc, unit string
	typ              pmetric.MetricType
}

// VerifHarness_C05_split_metrics: the same for splitMetrics, with every metric type (symbolic per metric),
// metric descriptor (name, description, unit, type, temporality, monotonic) part of the identity.
func VerifHarness_C05_split_metrics() {
	src := pmetric.NewMetrics()
	home := map[int64]verifHome{}
	desc := map[int64]verifDesc{}
	total := 0
	nr := verifCountUpTo("resources", rt.Param("MAXR"))
	for r := 0; r < nr; r++ {
		rs := src.ResourceMetrics().AppendEmpty()
		h := verifHome{res: fmt.Sprintf("res%d", r), resURL: fmt.Sprintf("rurl%d", r)}
		rs.Resource().Attributes().PutStr("id", h.res)
		rs.SetSchemaUrl(h.resURL)
		ns := verifCountUpTo("scopes", rt.Param("MAXS"))
		for s := 0; s < ns; s++ {
			ss := rs.ScopeMetrics().AppendEmpty()
			h.scope, h.scopeURL = fmt.Sprintf("scope%d.%d", r, s), fmt.Sprintf("surl%d.%d", r, s)
			ss.Scope().SetName(h.scope)
			ss.SetSchemaUrl(h.scopeURL)
			nm := verifCountUpTo("metrics", rt.Param("MAXM"))
			for mi := 0; mi < nm; mi++ {
				m := ss.Metrics().AppendEmpty()
				d := verifDesc{name: fmt.Sprintf("m%d.%d.%d", r, s, mi), desc: fmt.Sprintf("d%d.%d.%d", r, s, mi), unit: fmt.Sprintf("u%d", mi)}
				m.SetName(d.name)
				m.SetDescription(d.desc)
				m.SetUnit(d.unit)
				typ := rt.Int("metricType")
				rt.Assume(typ >= 0)
				rt.Assume(typ <= 5)
				switch typ {
				case 1:
					m.SetEmptyGauge()
				case 2:
					m.SetEmptySum().SetAggregationTemporality(pmetric.AggregationTemporalityCumulative)
					m.Sum().SetIsMonotonic(true)
				case 3:
					m.SetEmptyHistogram().SetAggregationTemporality(pmetric.AggregationTemporalityCumulative)
				case 4:
					m.SetEmptyExponentialHistogram().SetAggregationTemporality(pmetric.AggregationTemporalityDelta)
				case 5:
					m.SetEmptySummary()
				}
				d.typ = m.Type()
				np := 0
				if typ > 0 {
					np = verifCountUpTo("points", rt.Param("MAXP"))
				}
				h.metric = d.name
				for _, id := range verifAddPoints(m, typ, np, int64(r*1000+s*100+mi*10+1)) {
					home[id] = h
					desc[id] = d
					total++
				}
			}
		}
	}
	size := rt.Int("size")
	rt.Assume(size >= 1)
	rt.Assume(size <= total+1)
	dest := splitMetrics(size, src)
	want := size
	if total <= size {
		want = total
	}
	rt.Observe("destCount", dest.DataPointCount())
	rt.Assert(dest.DataPointCount() == want, "C05.split_metrics.dest_count")
	seen := map[int64]int{}
	walk := func(md pmetric.Metrics) {
		for i := 0; i < md.ResourceMetrics().Len(); i++ {
			rs := md.ResourceMetrics().At(i)
			for j := 0; j < rs.ScopeMetrics().Len(); j++ {
				ss := rs.ScopeMetrics().At(j)
				for k := 0; k < ss.Metrics().Len(); k++ {
					m := ss.Metrics().At(k)
					for _, id := range verifPointIDs(m) {
						seen[id]++
						h, d := home[id], desc[id]
						rt.Assert(verifResIdentity(rs.Resource()) == h.res, "C05.split_metrics.resource_identity")
						rt.Assert(rs.SchemaUrl() == h.resURL, "C05.split_metrics.resource_schema_url")
						rt.Assert(ss.Scope().Name() == h.scope, "C05.split_metrics.scope_identity")
						rt.Assert(ss.SchemaUrl() == h.scopeURL, "C05.split_metrics.scope_schema_url")
						rt.Assert(m.Name() == d.name && m.Description() == d.desc && m.Unit() == d.unit && m.Type() == d.typ, "C05.split_metrics.metric_descriptor")
						switch m.Type() {
						case pmetric.MetricTypeSum:
							rt.Assert(m.Sum().IsMonotonic() && m.Sum().AggregationTemporality() == pmetric.AggregationTemporalityCumulative, "C05.split_metrics.sum_temporality_monotonic")
						case pmetric.MetricTypeHistogram:
							rt.Assert(m.Histogram().AggregationTemporality() == pmetric.AggregationTemporalityCumulative, "C05.split_metrics.histogram_temporality")
						case pmetric.MetricTypeExponentialHistogram:
							rt.Assert(m.ExponentialHistogram().AggregationTemporality() == pmetric.AggregationTemporalityDelta, "C05.split_metrics.ehistogram_temporality")
						}
					}
				}
			}
		}
	}
	walk(dest)
	if total > size {
		rt.Reach("C05.split_metrics.partial")
		rt.Assert(src.DataPointCount() == total-size, "C05.split_metrics.remainder_count")
		walk(src)
	}
	for id := range home {
		rt.Assert(seen[id] == 1, "C05.split_metrics.exactly_once")
	}
	rt.Assert(len(seen) == total, "C05.split_metrics.nothing_invented")
}

// ---- the batch type contract the shard relies on (all three signals) ----

func verifMetricsReq(base int64, n int) pmetric.Metrics {
	md := pmetric.NewMetrics()
	m := md.ResourceMetrics().AppendEmpty().ScopeMetrics().AppendEmpty().Metrics().AppendEmpty()
	m.SetName("m")
	g := m.SetEmptyGauge()
	for i := 0; i < n; i++ {
		g.DataPoints().AppendEmpty().SetStartTimestamp(pcommon.Timestamp(base + int64(i)))
	}
	return md
}

func verifLogsReq(base int64, n int) plog.Logs {
	ld := plog.NewLogs()
	lr := ld.ResourceLogs().AppendEmpty().ScopeLogs().AppendEmpty().LogRecords()
	for i := 0; i < n; i++ {
		lr.AppendEmpty().SetTimestamp(pcommon.Timestamp(base + int64(i)))
	}
	return ld
}

func verifIDsOf(data any) []int64 {
	var ids []int64
	switch d := data.(type) {
	case ptrace.Traces:
		for i := 0; i < d.ResourceSpans().Len(); i++ {
			for j := 0; j < d.ResourceSpans().At(i).ScopeSpans().Len(); j++ {
				ss := d.ResourceSpans().At(i).ScopeSpans().At(j).Spans()
				for k := 0; k < ss.Len(); k++ {
					ids = append(ids, int64(ss.At(k).StartTimestamp()))
				}
			}
		}
	case pmetric.Metrics:
		for i := 0; i < d.ResourceMetrics().Len(); i++ {
			for j := 0; j < d.ResourceMetrics().At(i).ScopeMetrics().Len(); j++ {
				ms := d.ResourceMetrics().At(i).ScopeMetrics().At(j).Metrics()
				for k := 0; k < ms.Len(); k++ {
					ids = append(ids, verifPointIDs(ms.At(k))...)
				}
			}
		}
	case plog.Logs:
		for i := 0; i < d.ResourceLogs().Len(); i++ {
			for j := 0; j < d.ResourceLogs().At(i).ScopeLogs().Len(); j++ {
				lr := d.ResourceLogs().At(i).ScopeLogs().At(j).LogRecords()
				for k := 0; k < lr.Len(); k++ {
					ids = append(ids, int64(lr.At(k).Timestamp()))
				}
			}
		}
	}
	return ids
}

// VerifHarness_C05_batch_contract: for each signal's batch type (symbolic kind), STEPS rounds of
// add(request of 1..ITEMS items); splitBatch(max) with symbolic max, then a final drain: every handed-out
// request holds exactly `sent` items, at most max when max > 0; itemCount() always equals the number of
// items really buffered; a handed-out request is never aliased with the buffer (later adds do not reach it);
// over the whole history every item is handed out exactly once.
func VerifHarness_C05_batch_contract() {
	kind := rt.Int("kind")
	rt.Assume(kind >= 0)
	rt.Assume(kind <= 2)
	var b batch
	mk := func(base int64, n int) any { return verifTraces(base, n) }
	switch kind {
	case 0:
		b = newBatchTraces(nil)
	case 1:
		b = newBatchMetrics(nil)
		mk = func(base int64, n int) any { return verifMetricsReq(base, n) }
	default:
		b = newBatchLogs(nil)
		mk = func(base int64, n int) any { return verifLogsReq(base, n) }
	}
	max := rt.Int("max")
	rt.Assume(max >= 0)
	rt.Assume(max <= rt.Param("ITEMS")+1)
	type handed struct {
		req  any
		sent int
	}
	var out []handed
	added := 0
	buffered := 0
	for s := 0; s < rt.Param("STEPS"); s++ {
		n := rt.Int("n")
		rt.Assume(n >= 1)
		rt.Assume(n <= rt.Param("ITEMS"))
		b.add(mk(int64(100*(s+1)), n))
		added += n
		buffered += n
		rt.Assert(b.itemCount() == buffered, "C05.batch_contract.count_after_add")
		sent, req := b.splitBatch(context.Background(), max)
		out = append(out, handed{req, sent})
		buffered -= sent
		rt.Assert(sent >= 1, "C05.batch_contract.sent_positive")
		if max > 0 {
			rt.Assert(sent <= max, "C05.batch_contract.sent_within_max")
		}
		rt.Assert(b.itemCount() == buffered, "C05.batch_contract.count_after_split")
	}
	for b.itemCount() > 0 && len(out) < 12 {
		sent, req := b.splitBatch(context.Background(), max)
		out = append(out, handed{req, sent})
		buffered -= sent
		rt.Assert(sent >= 1, "C05.batch_contract.sent_positive")
	}
	rt.Assert(buffered == 0, "C05.batch_contract.drained")
	seen := map[int64]int{}
	total := 0
	for _, h := range out {
		ids := verifIDsOf(h.req)
		rt.Assert(len(ids) == h.sent, "C05.batch_contract.request_holds_sent_items")
		for _, id := range ids {
			seen[id]++
			total++
		}
	}
	rt.Assert(total == added, "C05.batch_contract.all_handed_out")
	for _, n := range seen {
		rt.Assert(n == 1, "C05.batch_contract.exactly_once")
	}
}
